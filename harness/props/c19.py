"""C19 — results do not depend on the configured Field or Fourier backend.

Four value streams per random array program: a plain-ndarray reference (no Field at all), the real
code with old-style fields, the real code with new-style fields, and the Lean model (both routes).
The *oracle* (model-independent) compares old and new with the plain reference and with each other
and checks the grid rule at every elementwise / copy / pickle node and the write-through rule at
every in-place statement.  The *correspondence* compares each real style with the model's route
(tag incl. grid, shape, dtype class, values, exception class).  Library pipelines are run under every
configuration combination and compared with the default configuration.
"""
import copy as _copy
import itertools
import operator
import pickle as _pickle
import warnings
from fractions import Fraction

import numpy as np

from harness.common import rat, MachineryError

TOL = 1e-12          # programs: dyadic inputs, results exact or within rounding of a few operations
PIPE_TOL = 1e-9      # pipelines: relative to the largest reference value


# ---------------------------------------------------------------------------------------------
# configuration switching (always restored)

class config:
    """with config(new_style=…, emulate=…, mft_pre=…, mft_alloc=…, nft_pre=…, method=[…]): …"""
    KEYS = {
        'new_style': ('core', 'use_new_style_fields'),
        'emulate': ('fourier', 'fft', 'emulate_fftshifts'),
        'method': ('fourier', 'fft', 'method'),
        'mft_pre': ('fourier', 'mft', 'precompute_matrices'),
        'mft_alloc': ('fourier', 'mft', 'allocate_intermediate'),
        'nft_pre': ('fourier', 'nft', 'precompute_matrices'),
    }

    def __init__(self, **kw):
        self.kw = kw
        self.saved = []

    @staticmethod
    def _node(path):
        from hcipy.config import Configuration
        node = Configuration()
        for k in path[:-1]:
            node = getattr(node, k)
        return node

    def __enter__(self):
        for k, v in self.kw.items():
            if v is None:
                continue
            path = self.KEYS[k]
            node = self._node(path)
            self.saved.append((path, getattr(node, path[-1])))
            setattr(node, path[-1], list(v) if isinstance(v, (list, tuple)) else v)
        return self

    def __exit__(self, *exc):
        for path, old in reversed(self.saved):
            setattr(self._node(path), path[-1], old)
        self.saved = []
        return False


def snapshot_config():
    return {k: _copy.deepcopy(getattr(config._node(p), p[-1])) for k, p in config.KEYS.items()}


# ---------------------------------------------------------------------------------------------
# grids and literals

def build_grid(spec, k=0):
    """grid number k of a program; grids with different k are never equal"""
    import hcipy
    dims = spec['dims']
    if spec.get('sep', True):
        d = len(dims)
        return hcipy.CartesianGrid(hcipy.RegularCoords([0.5 * (k + 1), 0.25, 0.125][:d], list(dims), [0.0 + k, -1.0, 2.0][:d]))
    n = int(np.prod(dims))
    return hcipy.CartesianGrid(hcipy.UnstructuredCoords([np.arange(n) * 0.5 * (k + 1) + k, (np.arange(n) % 3) * 1.0]))


def grid_shape(spec):
    return list(spec['dims'])[::-1] if spec.get('sep', True) else None


def build_array(shape, kind, re, im):
    if kind == 'c':
        a = np.array(re, dtype=float) + 1j * np.array(im, dtype=float)
    elif kind == 'r':
        a = np.array(re, dtype=float)
    elif kind == 'i':
        a = np.array(re, dtype=np.int64)
    elif kind == 'b':
        a = np.array(re, dtype=bool)
    else:
        raise MachineryError('literal of kind %r' % kind)
    return a.reshape(tuple(shape))


def err_class(e):
    if isinstance(e, AttributeError):
        return 'attr'
    if isinstance(e, IndexError) and not isinstance(e, ValueError):
        return 'index'
    if isinstance(e, ValueError):
        return 'value'
    if isinstance(e, TypeError):
        return 'type'
    if isinstance(e, RecursionError):
        return 'recursion'
    return 'other:' + type(e).__name__


class Stop(Exception):
    def __init__(self, kind, text):
        self.kind = kind
        self.text = text


# ---------------------------------------------------------------------------------------------
# one interpreter for three of the four streams: mode 'plain' (no Field), 'old', 'new'

BIN_SPELL = {
    'add': [operator.add, np.add, lambda a, b: operator.add(a, b)],
    'sub': [operator.sub, np.subtract],
    'mul': [operator.mul, np.multiply],
    'div': [operator.truediv, np.divide, np.true_divide],
    'max': [np.maximum],
    'min': [np.minimum],
    'gt': [operator.gt, np.greater],
    'lt': [operator.lt, np.less],
    'ge': [operator.ge, np.greater_equal],
    'le': [operator.le, np.less_equal],
    'eq': [operator.eq, np.equal],
    'ne': [operator.ne, np.not_equal],
    'and': [operator.and_, np.logical_and],
    'or': [operator.or_, np.logical_or],
}
UN_SPELL = {
    'neg': [operator.neg, np.negative],
    'pos': [operator.pos, np.positive],
    'abs': [abs, np.abs, np.absolute],
    'sq': [np.square, lambda a: a * a, lambda a: a ** 2],
    'conj': [np.conj, np.conjugate, lambda a: a.conj(), lambda a: a.conjugate()],
    're': [np.real, lambda a: a.real],
    'im': [np.imag, lambda a: a.imag],
    'not': [operator.invert, np.logical_not],
}
RED_FUNC = {'sum': np.sum, 'mean': np.mean, 'max': np.max, 'min': np.min, 'prod': np.prod, 'any': np.any, 'all': np.all}
OUT_FUNC = {'add': np.add, 'sub': np.subtract, 'mul': np.multiply, 'div': np.divide, 'max': np.maximum, 'min': np.minimum}
DTYPES = {'r': float, 'c': complex, 'i': np.int64, 'b': bool}


def py_index(form, args):
    """the Python index object of an index form (always through an Ellipsis except at0)"""
    if form == 'at0':
        return args[0]
    if form == 'atl':
        return (Ellipsis, args[0])
    if form == 'sl':
        return (Ellipsis, slice(args[0], args[1], args[2]))
    if form == 'psl':
        return (Ellipsis, slice(args[0], args[1], args[2]))
    if form == 'tk':
        return (Ellipsis, list(args[0]))
    raise MachineryError('index form %r' % form)


def plain_field_dot(a, b):
    a, b = np.asarray(a), np.asarray(b)
    key = (a.ndim, b.ndim)
    subs = {(2, 2): 'iz,iz->z', (3, 2): 'ijz,jz->iz', (2, 3): 'iz,ijz->jz', (3, 3): 'ijz,jkz->ikz'}.get(key)
    if subs is None:
        raise ValueError('field_dot reference: tensor orders %r' % (key,))
    return np.einsum(subs, a, b)


def apply_fn1(mode, f, args, sp, a):
    if f == 'rk':
        ax = AXIS[args[1]]
        return RED_FUNC[args[0]](a, axis=ax, keepdims=True) if sp % 2 == 0 else getattr(a, args[0])(axis=ax, keepdims=True)
    if f in ('cs', 'cp'):
        name = 'cumsum' if f == 'cs' else 'cumprod'
        ax = AXIS[args[0]]
        return getattr(np, name)(a, axis=ax) if sp % 2 == 0 else getattr(a, name)(axis=ax)
    if f == 'sort':
        return np.sort(a, axis=-1) if sp % 2 == 0 else np.sort(a)
    if f == 'argsort':
        return np.argsort(a, axis=-1, kind='stable') if sp % 2 == 0 else a.argsort(kind='stable')
    if f in ('amax', 'amin'):
        name = 'argmax' if f == 'amax' else 'argmin'
        ax = AXIS[args[0]]
        if sp % 2 == 0:
            return getattr(np, name)(a) if ax is None else getattr(np, name)(a, axis=ax)
        return getattr(a, name)() if ax is None else getattr(a, name)(axis=ax)
    if f == 'as':
        return a.astype(DTYPES[args[0]])
    if f == 'ftrace':
        if mode == 'plain':
            return np.einsum('iiz->z', a)
        import hcipy
        return hcipy.field_trace(a)
    raise MachineryError('fn1 %r' % f)
AXIS = {'all': None, 'last': -1, 'first': 0}
IOP = {'add': operator.iadd, 'sub': operator.isub, 'mul': operator.imul, 'div': operator.itruediv}


def is_field(x):
    import hcipy
    return hcipy.field.is_field(x)


class Interp:
    def __init__(self, mode, grids):
        self.mode = mode
        self.specs = grids
        self.grids = [build_grid(s, k) for k, s in enumerate(grids)] if mode != 'plain' else [None] * len(grids)
        self.env = {}
        self.findings = []       # (key, what) found by the node-level oracle
        self.shaped_ops = []     # kind of object ('f<g>' / 'p' / 's' / '?') handed to every `.shaped` evaluated so far

    # -- helpers
    def grid_id(self, g):
        if g is None:
            return 'None'
        for i, h in enumerate(self.grids):
            if g is h:
                return str(i)
        for i, h in enumerate(self.grids):
            try:
                if g == h:
                    return str(i)
            except Exception:
                pass
        return '?'

    def make_field(self, arr, g):
        if self.mode == 'plain':
            return arr
        import hcipy
        return hcipy.Field(arr, self.grids[g])

    def _elementwise_check(self, name, operands, res):
        """clause: elementwise results stay attached to the (leftmost) Field operand's grid"""
        if self.mode == 'plain':
            return
        fields = [o for o in operands if is_field(o)]
        if not fields:
            return
        if np.ndim(res) == 0 and not is_field(res):
            return                      # 0-d: NumPy hands out a scalar under the wrapper; values only
        gids = set(self.grid_id(f.grid) for f in fields)
        if not is_field(res):
            self.findings.append(('grid-lost %s %s' % (self.mode, name),
                                  '%s of a Field returned a bare %s under %s-style fields' % (name, type(res).__name__, self.mode)))
        elif len(gids) == 1:
            want = fields[0].grid
            if res.grid is None or not (res.grid is want or res.grid == want):
                self.findings.append(('grid-changed %s %s' % (self.mode, name),
                                      '%s of a Field returned a Field on a different grid under %s-style fields' % (name, self.mode)))

    def _attached_check(self, name, operands, res):
        """clause: results of array methods that both styles keep attached stay on the first Field's grid"""
        if self.mode == 'plain' or not is_field(operands[0]) or np.ndim(res) == 0:
            return
        if not is_field(res):
            self.findings.append(('grid-lost %s %s' % (self.mode, name), '%s of a Field returned a bare %s under %s-style fields' % (name, type(res).__name__, self.mode)))
        elif res.grid is None or not (res.grid == operands[0].grid):
            self.findings.append(('grid-changed %s %s' % (self.mode, name), '%s of a Field returned a Field on a different grid under %s-style fields' % (name, self.mode)))

    def _roundtrip_check(self, name, src, res):
        if self.mode == 'plain' or not is_field(src):
            return
        if not is_field(res):
            self.findings.append(('%s-not-field %s' % (name, self.mode), '%s of a Field is a %s under %s-style fields' % (name, type(res).__name__, self.mode)))
            return
        if res.grid is None or not (res.grid == src.grid):
            self.findings.append(('%s-grid %s' % (name, self.mode), '%s of a Field lost or changed the grid under %s-style fields' % (name, self.mode)))
        a, b = np.asarray(src), np.asarray(res)
        if a.shape != b.shape or a.dtype != b.dtype or not np.array_equal(a, b):
            self.findings.append(('%s-values %s' % (name, self.mode), '%s of a Field changed shape, dtype or values under %s-style fields' % (name, self.mode)))
        if a.size and np.shares_memory(a, b):
            self.findings.append(('%s-shares-memory %s' % (name, self.mode), '%s of a Field shares memory with the original under %s-style fields' % (name, self.mode)))

    # -- expressions
    def ev(self, e):
        t = e[0]
        if t == 'var':
            return self.env[e[1]]
        if t == 'lit':
            return build_array(e[1], e[2], e[3], e[4])
        if t == 'scal':
            v = complex(e[2], e[3]) if e[1] == 'c' else float(e[2])
            sp = e[4]
            return (np.complex128(v) if e[1] == 'c' else np.float64(v)) if sp == 1 else v
        if t == 'field':
            return self.make_field(build_array(e[2], e[3], e[4], e[5]), e[1])
        if t == 'bin':
            l, r = self.ev(e[3]), self.ev(e[4])
            fs = BIN_SPELL[e[1]]
            res = fs[e[2] % len(fs)](l, r)
            self._elementwise_check(e[1], [l, r], res)
            return res
        if t == 'un':
            a = self.ev(e[3])
            fs = UN_SPELL[e[1]]
            res = fs[e[2] % len(fs)](a)
            self._elementwise_check(e[1], [a], res)
            return res
        if t == 'red':
            a = self.ev(e[4])
            ax = AXIS[e[2]]
            sp = e[3] % 2
            if sp == 0:
                return RED_FUNC[e[1]](a) if ax is None else RED_FUNC[e[1]](a, axis=ax)
            m = getattr(a, e[1])
            return m() if ax is None else m(axis=ax)
        if t == 'idx':
            a = self.ev(e[3])
            return a[py_index(e[1], e[2])]
        if t == 'app1':
            a = self.ev(e[4])
            res = apply_fn1(self.mode, e[1], e[2], e[3], a)
            if e[1] in ('rk', 'cs', 'cp', 'sort', 'argsort', 'as') or (e[1] in ('amax', 'amin') and np.ndim(res) > 0):
                self._attached_check(e[1], [a], res)
            return res
        if t == 'app2':
            a, b = self.ev(e[3]), self.ev(e[4])
            if e[1] == 'fdot':
                if self.mode == 'plain':
                    return plain_field_dot(a, b)
                import hcipy
                res = hcipy.field_dot(a, b)
                self._attached_check('field_dot', [a, b], res)
                return res
            if e[1] == 'mm1':
                return (a @ b) if e[2] % 2 == 0 else np.matmul(a, b)
            raise MachineryError('fn2 %r' % e[1])
        if t == 'app3':
            a, b, c = self.ev(e[3]), self.ev(e[4]), self.ev(e[5])
            if e[1] == 'where':
                return np.where(a, b, c)
            if e[1] == 'clip':
                res = np.clip(a, b, c) if (e[2] % 2 == 0 or not hasattr(a, 'clip')) else a.clip(b, c)
                self._elementwise_check('clip', [a, b, c], res)
                return res
            raise MachineryError('fn3 %r' % e[1])
        if t == 'mask':
            a = self.ev(e[1])
            m = self.ev(e[2])
            return a[..., m]
        if t == 'shaped':
            a = self.ev(e[1])
            if self.mode != 'plain':
                self.shaped_ops.append(describe(a, self).get('tag', '?'))
                return a.shaped
            g = e[2]            # plain reference: the generator records the grid id
            gs = grid_shape(self.specs[g])
            if gs is None:
                raise ValueError('not separated')
            return np.reshape(a, tuple(a.shape[:-1]) + tuple(gs))
        if t == 'reshape':
            a = self.ev(e[3])
            return a.reshape(tuple(e[1])) if e[2] % 2 == 0 else np.reshape(a, tuple(e[1]))
        if t == 'ravel':
            a = self.ev(e[2])
            return a.ravel() if e[1] % 2 == 0 else np.ravel(a)
        if t == 'copy':
            a = self.ev(e[2])
            sp = e[1] % 3
            res = [lambda: a.copy(), lambda: _copy.copy(a), lambda: _copy.deepcopy(a)][sp]()
            self._roundtrip_check('copy', a, res)
            return res
        if t == 'pickle':
            a = self.ev(e[2])
            res = _pickle.loads(_pickle.dumps(a, protocol=2 + e[1] % 4))
            self._roundtrip_check('pickle', a, res)
            return res
        if t == 'ext':
            args = [self.ev(x) for x in e[2]]
            op = EXT[e[1]]
            if op.get('fieldonly') and self.mode == 'plain':
                return None             # no plain-array reference: old and new are compared with each other
            res = op['f'](*args)
            if op.get('elementwise'):
                for r in (res if isinstance(res, tuple) else (res,)):
                    self._elementwise_check(e[1], args, r)
            return res
        raise MachineryError('expression %r' % (t,))

    # -- statements; returns the target variable
    def st(self, s):
        t = s[0]
        if t == 'assign':
            self.env[s[1]] = self.ev(s[2])
            return s[1]
        if t == 'alias':
            self.env[s[1]] = self.env[s[2]]
            return s[1]
        if t == 'iop':
            e = self.ev(s[3])
            self.env[s[1]] = IOP[s[2]](self.env[s[1]], e)
            return s[1]
        if t == 'setix':
            e = self.ev(s[4])
            self.env[s[1]][py_index(s[2], s[3])] = e
            return s[1]
        if t == 'iopix':
            # x[i] op= e   ==   t = x[i]; t = t.__iop__(e); x[i] = t
            e = self.ev(s[5])
            x = self.env[s[1]]
            ix = py_index(s[3], s[4])
            x[ix] = IOP[s[2]](x[ix], e)
            return s[1]
        if t == 'iopmask':
            m = self.ev(s[3])
            e = self.ev(s[4])
            x = self.env[s[1]]
            x[..., m] = IOP[s[2]](x[..., m], e)
            return s[1]
        if t == 'out':
            a, b = self.ev(s[3]), self.ev(s[4])
            OUT_FUNC[s[2]](a, b, out=self.env[s[1]])
            return s[1]
        if t == 'setreal':
            self.env[s[1]].real = self.ev(s[2])
            return s[1]
        if t == 'setimag':
            self.env[s[1]].imag = self.ev(s[2])
            return s[1]
        if t == 'sortip':
            self.env[s[1]].sort()
            return s[1]
        if t == 'fill':
            self.env[s[1]].fill(self.ev(s[2]))
            return s[1]
        if t == 'setmask':
            m = self.ev(s[2])
            e = self.ev(s[3])
            self.env[s[1]][..., m] = e
            return s[1]
        if t == 'xstmt':
            args = [self.ev(x) for x in s[3]]
            r = XSTMT[s[2]]['f'](self.env[s[1]], *args)
            if XSTMT[s[2]].get('rebinds'):
                self.env[s[1]] = r
            return s[1]
        raise MachineryError('statement %r' % (t,))

    def observe(self, x):
        return describe(self.env[x], self)


def describe(v, interp=None):
    """canonical observation of a Python value"""
    if isinstance(v, tuple):
        return {'tuple': [describe(x, interp) for x in v]}
    if isinstance(v, (list, str, bytes)) or v is None:
        return {'py': repr(v)}
    if interp is not None and interp.mode != 'plain' and is_field(v):
        tag = 'f' + interp.grid_id(v.grid)
        a = np.asarray(v)
    elif isinstance(v, np.ndarray):
        tag, a = 'p', v
    elif np.isscalar(v) or isinstance(v, (bool, int, float, complex)):
        tag, a = 's', np.asarray(v)
    else:
        return {'py': type(v).__name__}
    kind = 'b' if a.dtype == bool else 'c' if np.iscomplexobj(a) else 'r' if a.dtype.kind == 'f' else 'i' if a.dtype.kind in 'iu' else '?'
    return {'tag': tag, 'shape': [int(n) for n in a.shape], 'kind': kind,
            'vals': np.array(a, dtype=complex).ravel()}


def run_program(prog, mode):
    """Returns (observations per statement [(var, obs) | ('E', kind, text)], final dump, findings,
    per statement the kinds of object handed to `.shaped`)."""
    kw = {} if mode == 'plain' else {'new_style': mode == 'new'}
    trace, dump, findings, shaped_ops = [], None, [], []
    flips = mixed_flips(prog) if mode == 'mixed' else None
    with config(**kw), warnings.catch_warnings():
        warnings.simplefilter('ignore')
        it = Interp(mode, prog['grids'])
        ok = True
        for i, s in enumerate(prog['stmts']):
            nsh = len(it.shaped_ops)
            try:
                if flips is None:
                    x = it.st(s)
                    trace.append((x, it.observe(x)))
                else:
                    # the Field style is switched between statements: objects made under one style are operands,
                    # in-place targets and aliases under the other
                    with config(new_style=flips[i]):
                        x = it.st(s)
                        trace.append((x, it.observe(x)))
                shaped_ops.append(it.shaped_ops[nsh:])
            except MachineryError:
                raise
            except Exception as e:  # noqa
                trace.append(('E', err_class(e), '%s: %s' % (type(e).__name__, str(e)[:120])))
                shaped_ops.append(it.shaped_ops[nsh:])
                ok = False
                break
        if ok:
            dump = {}
            for x in prog['final'] + prog.get('final_views', []):
                try:
                    dump[x] = it.observe(x)
                except Exception as e:  # noqa
                    dump[x] = {'err': err_class(e)}
        findings = it.findings
    return trace, dump, findings, shaped_ops


def mixed_flips(prog):
    """the Field style configured while each statement runs in the 'mixed' run (a function of the program only, so that
    replays see the same): alternating per statement, or one switch in the middle; either style first"""
    n = len(prog['stmts'])
    h = sum(len(str(s)) for s in prog['stmts'])
    first = bool(h % 2)
    if (h // 2) % 2:
        return [first ^ bool(i % 2) for i in range(n)]
    return [first ^ (i >= (n + 1) // 2) for i in range(n)]


def shaped_divergence(old, new):
    """(index of the first statement in which the two styles hand different kinds of object to the same
    `.shaped`, kinds under old, kinds under new) or None — from the real runs only"""
    for i, (a, b) in enumerate(zip(old[3], new[3])):
        if any(x != y for x, y in zip(a, b)):
            return i, a, b
    return None


def same_values(a, b, tol=TOL):
    """a, b: observations with 'vals'"""
    if 'vals' not in a or 'vals' not in b:
        return a == b if ('vals' not in a and 'vals' not in b) else False
    if a['shape'] != b['shape'] or a['kind'] != b['kind']:
        return False
    if a['vals'].size == 0:
        return True
    if not (np.all(np.isfinite(a['vals'])) and np.all(np.isfinite(b['vals']))):
        return bool(np.array_equal(a['vals'], b['vals'], equal_nan=True))
    scale = max(1.0, float(np.max(np.abs(b['vals']))))
    return bool(np.max(np.abs(a['vals'] - b['vals'])) <= tol * scale)


def same_obs_values(a, b):
    if 'tuple' in a or 'tuple' in b:
        if not ('tuple' in a and 'tuple' in b) or len(a['tuple']) != len(b['tuple']):
            return False
        return all(same_obs_values(x, y) for x, y in zip(a['tuple'], b['tuple']))
    return same_values(a, b)


def short(o):
    if 'vals' in o:
        return '%s%s%s %s' % (o['tag'], o['shape'], o['kind'], np.array2string(o['vals'][:4], precision=6))
    return str(o)[:120]


# ---------------------------------------------------------------------------------------------
# the Lean side: tokens out, observations back

def _arr_tok(shape, kind, re, im):
    s = '[' + ','.join(str(int(n)) for n in shape) + ']'
    t = '%s:%s:[%s]' % (s, kind, ','.join(rat(x) for x in re))
    if kind == 'c':
        t += ':[%s]' % ','.join(rat(x) for x in im)
    return t


def ix_token(form, args):
    if form == 'tk':
        return 'tk.[%s]' % ','.join(str(int(i)) for i in args[0])
    return '.'.join([form] + ['n' if a is None else str(a) for a in args])


def expr_tokens(e, out):
    t = e[0]
    if t == 'var':
        out.append('v%d' % e[1])
    elif t == 'lit':
        out.append('L:' + _arr_tok(e[1], e[2], e[3], e[4]))
    elif t == 'scal':
        out.append('S:r:%s' % rat(e[2]) if e[1] == 'r' else 'S:c:%s:%s' % (rat(e[2]), rat(e[3])))
    elif t == 'field':
        out.append('F:%d:' % e[1] + _arr_tok(e[2], e[3], e[4], e[5]))
    elif t == 'bin':
        expr_tokens(e[3], out); expr_tokens(e[4], out); out.append(e[1])
    elif t == 'un':
        expr_tokens(e[3], out); out.append(e[1])
    elif t == 'red':
        expr_tokens(e[4], out); out.append('%s.%s' % (e[1], e[2]))
    elif t == 'idx':
        expr_tokens(e[3], out); out.append(ix_token(e[1], e[2]))
    elif t == 'app1':
        expr_tokens(e[4], out); out.append('.'.join([e[1]] + [str(a) for a in e[2]]))
    elif t == 'app2':
        expr_tokens(e[3], out); expr_tokens(e[4], out); out.append(e[1])
    elif t == 'app3':
        expr_tokens(e[3], out); expr_tokens(e[4], out); expr_tokens(e[5], out); out.append(e[1])
    elif t == 'mask':
        expr_tokens(e[1], out); expr_tokens(e[2], out); out.append('mask')
    elif t == 'shaped':
        expr_tokens(e[1], out); out.append('shaped')
    elif t == 'reshape':
        expr_tokens(e[3], out); out.append('rs.[%s]' % ','.join(str(n) for n in e[1]))
    elif t == 'ravel':
        expr_tokens(e[2], out); out.append('ravel')
    elif t == 'copy':
        expr_tokens(e[2], out); out.append('copy')
    elif t == 'pickle':
        expr_tokens(e[2], out); out.append('pickle')
    else:
        raise MachineryError('expression %r is not modelled' % t)


def program_lines(prog):
    lines = ['C19 reset']
    for i, g in enumerate(prog['grids']):
        gs = grid_shape(g)
        lines.append('C19 grid %d %s' % (i, '-' if gs is None else '[' + ','.join(str(n) for n in gs) + ']'))
    toks = []
    for s in prog['stmts']:
        t = s[0]
        if t == 'assign':
            toks.append('=.%d' % s[1]); expr_tokens(s[2], toks)
        elif t == 'alias':
            toks.append('al.%d.%d' % (s[1], s[2]))
        elif t == 'iop':
            toks.append('i.%s.%d' % (s[2], s[1])); expr_tokens(s[3], toks)
        elif t == 'setix':
            toks.append('set.%s.%d' % (ix_token(s[2], s[3]), s[1])); expr_tokens(s[4], toks)
        elif t == 'iopix':
            toks.append('iset.%s.%s.%d' % (s[2], ix_token(s[3], s[4]), s[1])); expr_tokens(s[5], toks)
        elif t == 'iopmask':
            toks.append('isetm.%s.%d' % (s[2], s[1])); expr_tokens(s[3], toks); toks.append(','); expr_tokens(s[4], toks)
        elif t == 'out':
            toks.append('out.%s.%d' % (s[2], s[1])); expr_tokens(s[3], toks); toks.append(','); expr_tokens(s[4], toks)
        elif t in ('setreal', 'setimag', 'fill'):
            toks.append('%s.%d' % ({'setreal': 'sreal', 'setimag': 'simag', 'fill': 'fill'}[t], s[1])); expr_tokens(s[2], toks)
        elif t == 'sortip':
            toks.append('sortip.%d' % s[1])
        elif t == 'setmask':
            toks.append('setm.%d' % s[1]); expr_tokens(s[2], toks); toks.append(','); expr_tokens(s[3], toks)
        else:
            raise MachineryError('statement %r is not modelled' % t)
        toks.append(';')
    lines.append('C19 run ' + ' '.join(toks))
    return lines


def _parse_list(s):
    from fractions import Fraction
    inner = s[1:-1]
    return [] if not inner else [float(Fraction(t)) for t in inner.split(',')]


def parse_model_obs(tok):
    x, _, body = tok.partition('=')
    if tok.startswith('E:'):
        return ('E', tok[2:])
    if body.startswith('E:'):
        return (int(x), {'err': body[2:]})
    parts = body.split(':')
    tag, shape, kind, re = parts[0], parts[1], parts[2], _parse_list(parts[3])
    im = _parse_list(parts[4]) if kind == 'c' else [0.0] * len(re)
    shape = [int(n) for n in shape[1:-1].split(',')] if len(shape) > 2 else []
    return (int(x), {'tag': tag, 'shape': shape, 'kind': kind,
                     'vals': np.array(re, dtype=float) + 1j * np.array(im, dtype=float)})


def parse_model_answer(line):
    if not line.startswith('ok O'):
        raise MachineryError('model answered %r' % line[:200])
    secs = [s.strip() for s in line[3:].split('|')]
    res = {}
    for sec in secs:
        name, _, body = sec.partition(' ')
        body = body.strip()
        if name == 'A':
            flag, _, at = body.partition(' ')
            if flag not in ('0', '1') or (at == '-') != (flag == '1'):
                raise MachineryError('model answered %r' % sec)
            res['A'] = None if flag == '1' else int(at)
            continue
        res[name] = None if body == '-' else [parse_model_obs(t) for t in body.split(' ') if t]
    return res


def has_ext(prog):
    def ex(e):
        if not isinstance(e, list):
            return False
        if e and e[0] == 'ext':
            return True
        return any(ex(x) for x in e if isinstance(x, list))
    return any(s[0] == 'xstmt' or ex(s) for s in prog['stmts'])


# ---------------------------------------------------------------------------------------------
# operations that are exercised on the real code only (old vs new vs plain), not by the model

def _bshape(*xs):
    return np.broadcast(*[np.asarray(x) for x in xs]).shape


def _fd(name):
    def f(*args):
        import hcipy
        return getattr(hcipy, name)(*args)
    return f


def _is_arraylike(a):
    return isinstance(a, np.ndarray) or is_field(a)


def _builtin_dtype(a):
    """the Python type that names the dtype of `a` (float for float64, complex for complex128, ...), else the dtype itself"""
    return {'float64': float, 'complex128': complex, 'bool': bool, 'int64': int}.get(np.asarray(a).dtype.name, np.asarray(a).dtype)


def _sorted_inplace(a):
    b = a.copy()
    r = b.sort()
    return (b, r)


EXT = {
    # elementwise ufuncs (inexact ones included: both styles call the same kernel)
    'sqrtabs': dict(f=lambda a: np.sqrt(np.abs(a)), ar=1, elementwise=True),
    'exp': dict(f=lambda a: np.exp(a / 16), ar=1, elementwise=True),
    'expi': dict(f=lambda a: np.exp(1j * a.real), ar=1, elementwise=True),
    'sin': dict(f=lambda a: np.sin(a), ar=1, elementwise=True),
    'absz': dict(f=lambda a: np.abs(a), ar=1, elementwise=True),
    'absop': dict(f=lambda a: abs(a), ar=1, elementwise=True),
    'rint': dict(f=lambda a: np.rint(a.real * 3), ar=1, elementwise=True),
    'sign': dict(f=lambda a: np.sign(a.real), ar=1, elementwise=True),
    'isfinite': dict(f=lambda a: np.isfinite(a), ar=1, elementwise=True),
    'pow2': dict(f=lambda a: a ** 2, ar=1, elementwise=True),
    'rpow': dict(f=lambda a: 2 ** (a.real / 4), ar=1, elementwise=True),
    'recip': dict(f=lambda a: 1 / (a * np.conj(a) + 1), ar=1, elementwise=True),
    'invert': dict(f=lambda a: ~(a.real > 0), ar=1, elementwise=True),
    'arctan2': dict(f=lambda a, b: np.arctan2(a.real, b.real), ar=2, elementwise=True),
    'hypot': dict(f=lambda a, b: np.hypot(a.real, b.real), ar=2, elementwise=True),
    'mod': dict(f=lambda a, b: a.real % (b.real ** 2 + 1), ar=2, elementwise=True),
    'floordiv': dict(f=lambda a, b: a.real // (b.real ** 2 + 1), ar=2, elementwise=True),
    'fmax': dict(f=lambda a, b: np.fmax(a.real, b.real), ar=2, elementwise=True),
    'ne': dict(f=lambda a, b: a != b, ar=2, elementwise=True),
    'ge': dict(f=lambda a, b: a.real >= b.real, ar=2, elementwise=True),
    'logical_and': dict(f=lambda a, b: np.logical_and(a.real > 0, b.real > 0), ar=2, elementwise=True),
    'divmod': dict(f=lambda a, b: divmod(a.real, b.real ** 2 + 1), ar=2, elementwise=True),
    'npdivmod': dict(f=lambda a, b: np.divmod(a.real, b.real ** 2 + 1), ar=2, elementwise=True),
    'modf': dict(f=lambda a: np.modf(a.real * 1.5), ar=1, elementwise=True),
    'frexp': dict(f=lambda a: np.frexp(a.real), ar=1, elementwise=True),
    'add_where_outfield': dict(f=lambda a, b: np.add(a, b, where=(a.real > 0), out=(a + b * 0).copy()), ar=2, elementwise=True),
    'add_where_outarr': dict(f=lambda a, b: np.add(a.real, b.real, where=(a.real > 0), out=np.zeros(_bshape(a, b))), ar=2),
    'mul_out_arr': dict(f=lambda a, b: np.multiply(a, b, out=np.empty(_bshape(a, b), dtype=complex)), ar=2),
    'add_dtype': dict(f=lambda a, b: np.add(a, b, dtype=complex), ar=2, elementwise=True),
    'clip': dict(f=lambda a: a.real.clip(-1, 1), ar=1, elementwise=True),
    'npclip': dict(f=lambda a, b: np.clip(a.real, b.real - 1, b.real + 1), ar=2, elementwise=True),
    'round0': dict(f=lambda a: a.real.round(), ar=1),
    'astype': dict(f=lambda a: a.astype(complex), ar=1),
    'where3': dict(f=lambda a, b: np.where(a.real > 0, a, b), ar=2),
    'angle': dict(f=lambda a: np.angle(a + 0.5), ar=1),
    # reductions and scans
    'std': dict(f=lambda a: a.std(), ar=1), 'npvar_last': dict(f=lambda a: np.var(a, axis=-1), ar=1),
    'prod': dict(f=lambda a: (a / 8).prod(axis=-1), ar=1), 'cumsum': dict(f=lambda a: a.cumsum(axis=-1), ar=1),
    'npcumsum': dict(f=lambda a: np.cumsum(a), ar=1),
    'any': dict(f=lambda a: (a.real > 0).any(), ar=1), 'all_last': dict(f=lambda a: (a.real > 0).all(axis=-1), ar=1),
    'argmax': dict(f=lambda a: a.real.argmax(), ar=1), 'argmin_last': dict(f=lambda a: np.argmin(a.real, axis=-1), ar=1),
    'ptp': dict(f=lambda a: np.ptp(a.real, axis=-1), ar=1), 'median': dict(f=lambda a: np.median(a.real), ar=1),
    'sum_where': dict(f=lambda a: np.sum(a, where=(a.real > 0)), ar=1),
    'mean_where': dict(f=lambda a: (a + 100).mean(where=((a.real + 100) > 0)), ar=1),
    'sum_keepdims': dict(f=lambda a: a.sum(axis=-1, keepdims=True), ar=1),
    'sum_out': dict(f=lambda a: a.sum(axis=-1, out=np.zeros(np.asarray(a).shape[:-1], dtype=complex)), ar=1),
    'add_reduce': dict(f=lambda a: np.add.reduce(a, axis=-1), ar=1),
    'add_accumulate': dict(f=lambda a: np.add.accumulate(a, axis=-1), ar=1),
    'mul_outer': dict(f=lambda a, b: np.multiply.outer(a[..., :2], b[..., :3]), ar=2),
    'add_reduceat': dict(f=lambda a: np.add.reduceat(a, [0, np.asarray(a).shape[-1] // 2], axis=-1), ar=1),
    'dot': dict(f=lambda a, b: np.dot(a[..., :], b.ravel()[:np.asarray(a).shape[-1]]), ar=2),
    'vdot': dict(f=lambda a, b: np.vdot(a.ravel(), a.ravel()), ar=2),
    'matmul': dict(f=lambda a, b: a.ravel() @ np.conj(a.ravel()), ar=2),
    'einsum': dict(f=lambda a, b: np.einsum('...i,...i->...i', a, a), ar=2),
    'trace': dict(f=lambda a: a.trace(), ar=1),
    'norm': dict(f=lambda a: np.linalg.norm(a.ravel()), ar=1),
    # indexing, reshaping
    'fancy': dict(f=lambda a: a[..., [0, -1, 0]], ar=1), 'rev': dict(f=lambda a: a[..., ::-1], ar=1),
    'newaxis': dict(f=lambda a: a[..., None], ar=1), 'none0': dict(f=lambda a: a[None], ar=1),
    'ellipsis': dict(f=lambda a: a[...], ar=1),
    'take': dict(f=lambda a: a.take([0, -1], axis=-1), ar=1), 'nptake': dict(f=lambda a: np.take(a, [0], axis=0), ar=1),
    'item': dict(f=lambda a: a.item(0), ar=1), 'tolist': dict(f=lambda a: a.tolist(), ar=1),
    'flat': dict(f=lambda a: a.flat[np.asarray(a).size - 1], ar=1),
    'diagonal': dict(f=lambda a: a.diagonal(), ar=1), 'swapaxes': dict(f=lambda a: a.swapaxes(0, -1), ar=1),
    'moveaxis': dict(f=lambda a: np.moveaxis(a, 0, -1), ar=1), 'T': dict(f=lambda a: a.T, ar=1),
    'transpose': dict(f=lambda a: a.transpose(), ar=1),
    'transpose_args': dict(f=lambda a: a.transpose(*range(np.asarray(a).ndim)[::-1]), ar=1),
    'reshape_args': dict(f=lambda a: a.reshape(np.asarray(a).size, 1), ar=1),
    'reshape_m1': dict(f=lambda a: a.reshape(-1), ar=1),
    'squeeze': dict(f=lambda a: a[None].squeeze(), ar=1), 'expand_dims': dict(f=lambda a: np.expand_dims(a, 0), ar=1),
    'repeat': dict(f=lambda a: a.repeat(2, axis=-1), ar=1), 'roll': dict(f=lambda a: np.roll(a, 1, axis=-1), ar=1),
    'flip': dict(f=lambda a: np.flip(a, axis=-1), ar=1), 'npsort': dict(f=lambda a: np.sort(a.real, axis=-1), ar=1),
    'sort_method': dict(f=lambda a: _sorted_inplace(a.real), ar=1),
    'argsort': dict(f=lambda a: a.real.argsort(axis=-1, kind='stable'), ar=1),
    'nonzero': dict(f=lambda a: (a.real > 0).nonzero(), ar=1), 'compress': dict(f=lambda a: np.compress([True], a, axis=-1), ar=1),
    'concatenate': dict(f=lambda a, b: np.concatenate([a.ravel(), b.ravel()]), ar=2),
    'stack': dict(f=lambda a: np.stack([a, a]), ar=1),
    'flatten': dict(f=lambda a: a.flatten(), ar=1),
    'mT': dict(f=lambda a: a.mT, ar=1),
    'choose': dict(f=lambda a, b: (a.real > 0).astype(int).choose([a.real, a.real + 1]), ar=2),
    'searchsorted': dict(f=lambda a: np.sort(a.real.ravel()).searchsorted(0.25), ar=1),
    # conversions and attributes
    'bool1': dict(f=lambda a: bool(a.ravel()[0:1]), ar=1), 'boolmany': dict(f=lambda a: bool(np.concatenate([a.ravel(), a.ravel()]) if False else a.ravel()), ar=1),
    'float0d': dict(f=lambda a: float(a.real[..., 0].ravel()[0:1].reshape(())), ar=1),
    'int0d': dict(f=lambda a: int((a.real * 4)[..., 0].ravel()[0:1].reshape(())), ar=1),
    'complex0d': dict(f=lambda a: complex(a[..., 0].ravel()[0:1].reshape(())), ar=1),
    'len': dict(f=lambda a: len(a), ar=1), 'size': dict(f=lambda a: int(a.size), ar=1), 'ndim': dict(f=lambda a: a.ndim, ar=1),
    'shape': dict(f=lambda a: tuple(int(n) for n in a.shape), ar=1), 'dtype': dict(f=lambda a: str(a.dtype), ar=1),
    'nbytes': dict(f=lambda a: int(a.nbytes), ar=1), 'itemsize': dict(f=lambda a: int(a.itemsize), ar=1),
    'iter': dict(f=lambda a: tuple(x for x in a), ar=1), 'contains': dict(f=lambda a: (a.ravel()[0] in a.ravel()), ar=1),
    'asarray_c': dict(f=lambda a: np.asarray(a, dtype=complex), ar=1), 'array': dict(f=lambda a: np.array(a), ar=1, mem='copy'),
    'allclose': dict(f=lambda a, b: bool(np.allclose(a, a)), ar=2), 'array_equal': dict(f=lambda a, b: bool(np.array_equal(a, a + 0)), ar=2),
    'npcopy': dict(f=lambda a: np.copy(a), ar=1, mem='copy'),      # subok=False: a bare ndarray under the subclass
    # conversions through the array protocol (`__array__(dtype, copy)` of the wrapper, ndarray's own rules for the subclass):
    # every spelling of dtype x copy.  `mem` says what NumPy's contract is - 'copy': an independent snapshot, 'share': the
    # same memory - so the result is read again at the end of the program after in-place updates of the converted variable.
    'array_same': dict(f=lambda a: np.array(a, dtype=a.dtype), ar=1, mem='copy'),
    'array_same_copy': dict(f=lambda a: np.array(a, dtype=a.dtype, copy=True), ar=1, mem='copy'),
    'array_builtin': dict(f=lambda a: np.array(a, dtype=_builtin_dtype(a)), ar=1, mem='copy'),
    'array_name': dict(f=lambda a: np.array(a, dtype=a.dtype.name), ar=1, mem='copy'),
    'array_copy_kw': dict(f=lambda a: np.array(a, copy=True), ar=1, mem='copy'),
    'array_order': dict(f=lambda a: np.array(a, dtype=a.dtype, order='K'), ar=1, mem='copy'),
    'array_wider': dict(f=lambda a: np.array(a, dtype=complex), ar=1, mem='copy'),
    'dunder_array_copy': dict(f=lambda a: a.__array__(a.dtype, copy=True), ar=1, mem='copy'),
    'dunder_array_copy_nodtype': dict(f=lambda a: a.__array__(copy=True), ar=1, mem='copy'),
    'astype_same': dict(f=lambda a: a.astype(a.dtype), ar=1, mem='copy'),
    # (copy=False cannot be honoured for a NumPy scalar - a 0-d result is a scalar on plain arrays and under the wrapper, a 0-d Field under the subclass)
    'array_nocopy': dict(f=lambda a: np.array(a, copy=False) if _is_arraylike(a) else np.array(a), ar=1, mem='share'),
    'array_same_nocopy': dict(f=lambda a: np.array(a, dtype=a.dtype, copy=False) if _is_arraylike(a) else np.array(a, dtype=a.dtype), ar=1, mem='share'),
    'asarray': dict(f=lambda a: np.asarray(a), ar=1, mem='share'),
    'asarray_same': dict(f=lambda a: np.asarray(a, dtype=a.dtype), ar=1, mem='share'),
    'asarray_builtin': dict(f=lambda a: np.asarray(a, dtype=_builtin_dtype(a)), ar=1, mem='share'),
    'asanyarray': dict(f=lambda a: np.asanyarray(a), ar=1, mem='share'),
    'dunder_array': dict(f=lambda a: a.__array__(), ar=1, mem='share'),
    'dunder_array_same': dict(f=lambda a: a.__array__(a.dtype), ar=1, mem='share'),
    'astype_same_nocopy': dict(f=lambda a: a.astype(a.dtype, copy=False), ar=1, mem='share'),
    'zeros_like': dict(f=lambda a: np.zeros_like(a), ar=1), 'full_like': dict(f=lambda a: np.full_like(a, 2.5), ar=1),
    # library field operators
    'field_dot': dict(fieldonly=True, f=_fd('field_dot'), ar=2), 'field_trace': dict(fieldonly=True, f=_fd('field_trace'), ar=1),
    'field_transpose': dict(fieldonly=True, f=_fd('field_transpose'), ar=1), 'field_conjugate_transpose': dict(fieldonly=True, f=_fd('field_conjugate_transpose'), ar=1),
    'field_kron': dict(fieldonly=True, f=_fd('field_kron'), ar=2), 'field_determinant': dict(fieldonly=True, f=_fd('field_determinant'), ar=1),
    'field_adjoint': dict(fieldonly=True, f=_fd('field_adjoint'), ar=1), 'field_cross': dict(fieldonly=True, f=_fd('field_cross'), ar=2),
    'field_inv': dict(fieldonly=True, f=lambda a: _fd('field_inv')(a + 64 * np.eye(np.asarray(a).shape[0])[..., None]), ar=1),
}


# the same operation is (now) also a construct of the Lean model; these entries remain as further spellings
EXT_ALSO_MODELLED = ['absop', 'pow2', 'invert', 'ne', 'ge', 'logical_and', 'clip', 'npclip', 'astype', 'where3', 'prod', 'cumsum', 'npcumsum',
                     'any', 'all_last', 'argmax', 'argmin_last', 'sum_keepdims', 'matmul', 'fancy', 'rev', 'take', 'npsort', 'sort_method',
                     'argsort', 'field_dot', 'field_trace', 'ellipsis', 'flatten', 'npcopy', 'array', 'reshape_m1']
XSTMT_ALSO_MODELLED = ['sort', 'fill', 'set_real', 'set_imag', 'ufunc_out_self', 'set_fancy', 'set_ellipsis', 'copyto']

MODEL_OPS = [
    'add', 'subtract', 'multiply', 'true_divide', 'maximum', 'minimum', 'greater', 'less', 'greater_equal', 'less_equal', 'equal', 'not_equal',
    'logical_and', 'logical_or', 'negative', 'positive', 'abs', 'square', 'conj', 'real', 'imag', 'logical_not',
    'sum', 'mean', 'max', 'min', 'prod', 'any', 'all', 'sum/…(keepdims=True)',
    'x[i]', 'x[..., i]', 'x[..., a:b:c] (any sign of step)', 'x[..., [ints]]', 'x[..., mask]',
    'shaped', 'reshape', 'ravel', 'copy', 'pickle', 'cumsum', 'cumprod', 'sort', 'argsort(stable)', 'argmax', 'argmin', 'astype',
    'where', 'clip', 'a @ b (1-d)', 'field_dot', 'field_trace',
    'x = e', 'h = x', 'x op= e', 'x[i] = e', 'x[..., mask] = e', 'x[i] op= e', 'x[..., mask] op= e', 'np.op(a, b, out=x)',
    'x.real = e', 'x.imag = e', 'x.sort()', 'x.fill(e)',
]

DIFF_ONLY_WHY = {
    'inexact kernels (no exact Rat semantics)': ['sqrtabs', 'exp', 'expi', 'sin', 'absz', 'rpow', 'recip', 'arctan2', 'hypot', 'angle', 'std', 'npvar_last', 'median', 'norm', 'field_inv'],
    'floor/mod/rounding and multi-output ufuncs (signed zeros, half-to-even; left out)': ['rint', 'sign', 'mod', 'floordiv', 'fmax', 'divmod', 'npdivmod', 'modf', 'frexp', 'round0', 'isfinite', 'ptp'],
    'keyword / ufunc-method dispatch variants of modelled kernels (where=, out=, dtype=, reduce, accumulate, outer, reduceat, at)': [
        'add_where_outfield', 'add_where_outarr', 'mul_out_arr', 'add_dtype', 'sum_where', 'mean_where', 'sum_out', 'add_reduce', 'add_accumulate',
        'mul_outer', 'add_reduceat', 'add_at', 'negative_out_self', 'multiply_out_tuple', 'ipow'],
    'multi-axis layout operations (the model only distinguishes first / last axis)': ['newaxis', 'none0', 'nptake', 'diagonal', 'swapaxes', 'moveaxis', 'T', 'transpose',
        'transpose_args', 'reshape_args', 'squeeze', 'expand_dims', 'repeat', 'roll', 'flip', 'concatenate', 'stack', 'mT', 'trace', 'dot', 'vdot', 'einsum'],
    'order not specified by NumPy or index-valued helpers': ['partition', 'nonzero', 'compress', 'choose', 'searchsorted', 'put', 'npput', 'flat_set'],
    'not array-valued (conversions, attributes, containers)': ['item', 'tolist', 'flat', 'bool1', 'boolmany', 'float0d', 'int0d', 'complex0d', 'len', 'size', 'ndim', 'shape',
        'dtype', 'nbytes', 'itemsize', 'iter', 'contains', 'asarray_c', 'allclose', 'array_equal', 'zeros_like', 'full_like'],
    'conversions through the array protocol: dtype x copy spellings (memory relation to the source is what is checked; reference model FieldRef: array / asarray)': [
        'array_same', 'array_same_copy', 'array_builtin', 'array_name', 'array_copy_kw', 'array_order', 'array_wider', 'dunder_array_copy', 'dunder_array_copy_nodtype',
        'astype_same', 'array_nocopy', 'array_same_nocopy', 'asarray', 'asarray_same', 'asarray_builtin', 'asanyarray', 'dunder_array', 'dunder_array_same', 'astype_same_nocopy'],
    'further hcipy tensor-field functions (einsum with size-1 broadcasting, determinants, …)': ['field_transpose', 'field_conjugate_transpose', 'field_kron', 'field_determinant',
        'field_adjoint', 'field_cross'],
}


def _xs_put(x, v):
    x.put([0, -1], v)
    return x


def _xs_npput(x, v):
    np.put(x, [0], v)
    return x


def _xs_setreal(x, v):
    x.real = v
    return x


def _xs_setimag(x, v):
    x.imag = v
    return x


def _xs_flatset(x, v):
    x.flat[0] = v
    return x


# in-place updates of the field itself that the model does not cover; each returns what `x` is
# bound to afterwards.  `cplx`: needs a complex target.
XSTMT = {
    'sort': dict(f=lambda x: x.sort(axis=-1), real=True),
    'partition': dict(f=lambda x: x.partition(0, axis=-1), real=True),
    'fill': dict(f=lambda x, v: x.fill(v), ar=1, scalar=True),
    'put': dict(f=_xs_put, ar=1, scalar=True), 'npput': dict(f=_xs_npput, ar=1, scalar=True),
    'set_real': dict(f=_xs_setreal, ar=1, scalar=True, cplx=True), 'set_imag': dict(f=_xs_setimag, ar=1, scalar=True, cplx=True),
    'flat_set': dict(f=_xs_flatset, ar=1, scalar=True),
    'add_at': dict(f=lambda x, v: np.add.at(x, (Ellipsis, [0, 0, -1]), v), ar=1, scalar=True),
    'ufunc_out_self': dict(f=lambda x, v: np.add(x, v, out=x), ar=1, rebinds=True),
    'negative_out_self': dict(f=lambda x: np.negative(x, out=x), rebinds=True),
    'multiply_out_tuple': dict(f=lambda x, v: np.multiply(x, v, out=(x,)), ar=1, rebinds=True),
    'copyto': dict(f=lambda x, v: np.copyto(x, v), ar=1),
    'set_ellipsis': dict(f=lambda x, v: x.__setitem__(Ellipsis, v), ar=1),
    'set_fancy': dict(f=lambda x, v: x.__setitem__((Ellipsis, [0, -1]), v), ar=1, scalar=True),
    'ipow': dict(f=lambda x: operator.ipow(x, 2), rebinds=True),
}


# ---------------------------------------------------------------------------------------------
# generation: programs are built statement by statement while a plain-ndarray interpreter runs
# along, so shapes, dtype classes, exactness and the validity of indices are known

def dy(rng, lo=-8, hi=8, bits=4):
    n = int(rng.integers(lo * (1 << bits), hi * (1 << bits) + 1))
    return n / float(1 << bits)


def gen_values(rng, shape, kind, nonzero=False):
    n = int(np.prod(shape))
    def one():
        v = dy(rng)
        if rng.random() < 0.15:
            v = float(int(rng.integers(-2, 3)))
        if nonzero and v == 0:
            v = 1.5
        return v
    re = [one() for _ in range(n)]
    im = [one() for _ in range(n)] if kind == 'c' else []
    return re, im


EXPR_HEADS = ('var', 'lit', 'scal', 'field', 'bin', 'un', 'red', 'idx', 'mask', 'shaped', 'reshape', 'ravel', 'copy', 'pickle', 'app1', 'app2', 'app3', 'ext')
NEW_CHOICES = ['cmp', 'cmp', 'redx', 'redx', 'scan', 'sort', 'arg', 'astype', 'where', 'clip', 'fdot', 'fdot', 'ftrace', 'mm1', 'pslice', 'take']
FN_CLS = {'rk': 'reduce', 'cs': 'keep', 'cp': 'keep', 'sort': 'keep', 'argsort': 'keep', 'as': 'keep', 'amax': 'scalar0', 'amin': 'scalar0',
          'ftrace': 'lib', 'fdot': 'lib', 'mm1': 'ufunc', 'where': 'func', 'clip': 'ufunc'}


class Builder:
    def __init__(self, rng, ext, big):
        self.rng = rng
        self.ext = ext
        n = int(rng.choice([1, 2, 3, 4, 5, 6, 7, 8, 9, 12, 15, 16, 20, 24, 25, 30, 36, 40])) if not big else int(rng.integers(1, 41))
        self.n = n
        self.grids = [self._grid(n)]
        r = rng.random()
        if r < 0.25:
            self.grids.append(self._grid(n))               # a second grid of the same size
        elif r < 0.32:
            self.grids.append(self._grid(int(rng.integers(1, 41))))   # … or of another size (shape errors)
        self.plain = Interp('plain', self.grids)
        self.view_obs = []    # views of a root that was updated in place afterwards: read at the end by the oracle only
        self.stmts = []
        self.info = {}        # var -> dict(level, root, view, tags=(old,new), grid)
        self.nvar = 0
        self.nroot = 0
        self.tensor = [[], [], [2], [3], [2, 2]][int(rng.integers(0, 5))]

    def _grid(self, n):
        rng = self.rng
        r = rng.random()
        if r < 0.15:
            return {'dims': [n], 'sep': False}
        divs = [d for d in range(1, n + 1) if n % d == 0]
        if r < 0.45 or len(divs) <= 1:
            return {'dims': [n], 'sep': True}
        d = int(rng.choice(divs))
        return {'dims': [d, n // d], 'sep': True}

    # ---- static knowledge about an expression (steers generation only)
    def tags(self, e, val):
        """(tag under old, tag under new) by the documented NumPy rules; 'f<g>', 'p', 's'"""
        t = e[0]
        nd = np.ndim(val)
        def uf(ops):
            old = next((o[0] for o in ops if o[0][0] == 'f'), None)
            new = next((o[1] for o in ops if o[1][0] == 'f'), None)
            bare = 's' if nd == 0 else 'p'
            return (old or bare, (new if nd > 0 else 's') if new else bare)
        if t == 'var':
            return self.info[e[1]]['tags']
        if t == 'lit':
            return ('p', 'p')
        if t == 'scal':
            return ('s', 's')
        if t == 'field':
            return ('f%d' % e[1],) * 2
        if t == 'bin':
            return uf([self.tags_of(e[3]), self.tags_of(e[4])])
        if t in ('un',):
            if e[1] in ('re', 'im'):
                return self.tags_of(e[3])       # np.real/np.imag are not ufuncs: a 0-d array stays an array
            return uf([self.tags_of(e[3])])
        if t == 'red':
            return uf([self.tags_of(e[4])])
        if t == 'idx':
            a = self.tags_of(e[3])
            return ('s', 's') if (e[1] == 'at0' and nd == 0) else a
        if t == 'mask':
            return self.tags_of(e[1])
        if t in ('shaped',):
            return self.tags_of(e[1])
        if t == 'reshape':
            return self.tags_of(e[3])
        if t in ('ravel', 'copy', 'pickle'):
            return self.tags_of(e[2])
        if t in ('app1', 'app2', 'app3'):
            ops = [self.tags_of(x) for x in (e[4:] if t == 'app1' else e[3:])]
            cls = FN_CLS[e[1]]
            if cls == 'ufunc':
                return uf(ops)
            if cls == 'reduce':
                return uf(ops[:1])
            bare = 's' if nd == 0 else 'p'
            res = []
            for r in (0, 1):
                h = ops[0][r]
                left = next((o[r] for o in ops if o[r][0] == 'f'), None)
                if cls == 'keep':
                    res.append(h if h[0] in 'fp' else bare)
                elif cls == 'scalar0':
                    res.append(('s' if nd == 0 else h) if h[0] == 'f' else bare)
                elif cls == 'func':
                    res.append('p' if r == 0 else (left or 'p'))
                else:   # lib
                    res.append(left or bare)
            return tuple(res)
        return ('?', '?')

    def tags_of(self, e):
        return self.tags(e, self.plain.ev(e))

    def level(self, e):
        """exactness level: 0 = integers/dyadics from literals … ; >= 9 = inexact"""
        t = e[0]
        if t == 'var':
            return self.info[e[1]]['level']
        if t in ('lit', 'scal', 'field'):
            return 1
        if t == 'bin':
            if e[1] in ('gt', 'lt', 'ge', 'le', 'eq', 'ne', 'and', 'or'):
                return 1
            a, b = self.level(e[3]), self.level(e[4])
            if e[1] == 'mul':
                return a + b
            if e[1] == 'div':
                return 9
            return max(a, b)
        if t == 'un':
            return self.level(e[3]) * (2 if e[1] == 'sq' else 1)
        if t == 'red':
            return 9 if e[1] in ('mean', 'prod') else 1 if e[1] in ('any', 'all') else self.level(e[4])
        if t == 'idx':
            return self.level(e[3])
        if t == 'mask':
            return self.level(e[1])
        if t == 'shaped':
            return self.level(e[1])
        if t == 'reshape':
            return self.level(e[3])
        if t in ('ravel', 'copy', 'pickle'):
            return self.level(e[2])
        if t == 'app1':
            f = e[1]
            if f in ('argsort', 'amax', 'amin'):
                return 1
            if f == 'cp' or (f == 'rk' and e[2][0] in ('mean', 'prod')):
                return 9
            if f == 'as' and e[2][0] in ('i', 'b'):
                return 1
            return self.level(e[4])
        if t == 'app2':
            return self.level(e[3]) + self.level(e[4])
        if t == 'app3':
            return max(self.level(x) for x in e[3:])
        return 9

    def view_root(self, e):
        """the variable whose memory the value of `e` may share (None: owns its data)"""
        t = e[0]
        if t == 'var':
            return e[1]
        if t == 'idx':
            return self.view_root(e[3])
        if t == 'shaped':
            return self.view_root(e[1])
        if t == 'reshape':
            return self.view_root(e[3])
        if t == 'ravel':
            return self.view_root(e[2])
        if t == 'un' and e[1] in ('re', 'im', 'pos', 'conj'):
            return self.view_root(e[3])
        if t == 'ext':
            for x in e[2]:
                r = self.view_root(x)
                if r is not None:
                    return r
        return None

    # ---- operand choice
    def val(self, e):
        return self.plain.ev(e)

    def live(self):
        return sorted(self.info)

    def pick_var(self, pred=None):
        c = [x for x in self.live() if pred is None or pred(x)]
        return ['var', int(self.rng.choice(c))] if c else None

    def shape_of(self, x):
        return tuple(np.shape(self.plain.env[x]))

    def kind_of_val(self, v):
        a = np.asarray(v)
        return 'b' if a.dtype == bool else 'c' if np.iscomplexobj(a) else 'i' if a.dtype.kind in 'iu' else 'r'

    def field_lit(self, g=None, kind=None, tensor=None):
        rng = self.rng
        g = int(rng.integers(0, len(self.grids))) if g is None else g
        n = int(np.prod(self.grids[g]['dims']))
        tensor = self.tensor if tensor is None else tensor
        if rng.random() < 0.25:
            tensor = [[], [2], [2, 2], [3]][int(rng.integers(0, 4))]
        kind = kind or ('c' if rng.random() < 0.4 else 'r')
        shape = list(tensor) + [n]
        re, im = gen_values(rng, shape, kind)
        return ['field', g, shape, kind, re, im]

    def scalar(self, kind=None, nonzero=False, pow2=False):
        rng = self.rng
        kind = kind or ('c' if rng.random() < 0.25 else 'r')
        if pow2:
            return ['scal', 'r', float(rng.choice([0.5, 2.0, 4.0, -2.0, 0.25])), 0.0, int(rng.integers(0, 2))]
        re = dy(rng)
        im = dy(rng) if kind == 'c' else 0.0
        if nonzero and re == 0 and im == 0:
            re = 1.5
        return ['scal', kind, re, im, int(rng.integers(0, 2))]

    def plain_lit(self, like_shape, kind=None, nonzero=False):
        rng = self.rng
        kind = kind or ('c' if rng.random() < 0.3 else 'r')
        shape = list(like_shape)
        r = rng.random()
        if len(shape) >= 2 and r < 0.3:
            shape = shape[:-1] + [1]            # per-tensor-element constants
        elif len(shape) >= 2 and r < 0.5:
            shape = shape[-1:]                   # one value per grid point
        elif r < 0.58 and shape:
            shape = [2] + shape                  # broadcasting upwards
        re, im = gen_values(rng, shape, kind, nonzero=nonzero)
        return ['lit', shape, kind, re, im]

    def operand(self, like=None, kind=None, nonzero=False):
        """an operand compatible (mostly) with the shape of `like`"""
        rng = self.rng
        r = rng.random()
        shape = list(np.shape(like)) if like is not None else self.tensor + [self.n]
        if r < 0.45:
            v = self.pick_var(lambda x: not nonzero and self.kind_of_val(self.plain.env[x]) != 'b')
            if v is not None and (kind is None or self.kind_of_val(self.plain.env[v[1]]) == kind or kind == 'c'):
                return v
        if r < 0.65:
            return self.scalar(kind, nonzero=nonzero)
        if r < 0.85:
            return self.plain_lit(shape, kind, nonzero=nonzero)
        if nonzero:
            return self.scalar(kind, nonzero=True)
        return self.field_lit(kind=kind)

    # ---- expressions
    def expr(self, depth=0):
        rng = self.rng
        base = self.pick_var() if (self.info and rng.random() < 0.85) else self.field_lit()
        if base is None:
            base = self.field_lit()
        v = self.val(base)
        k = self.kind_of_val(v)
        choices = ['bin', 'bin', 'bin', 'un', 'red', 'idx', 'mask', 'shape', 'copy', 'pickle'] + NEW_CHOICES
        if self.ext:
            choices += ['ext'] * 12
        c = str(rng.choice(choices))
        sp = int(rng.integers(0, 12))
        if k == 'b':
            c = str(rng.choice(['copy', 'pickle', 'not', 'logic', 'boolred', 'astype', 'where']))
        elif np.size(v) == 0:
            c = str(rng.choice(['copy', 'pickle', 'un']))
        if c in NEW_CHOICES or c in ('not', 'logic', 'boolred'):
            e = self.expr_new(c, base, v, k, sp)
            if e is not None:
                return e
            return self.expr(depth + 1) if depth < 4 else ['copy', sp, base]
        if c == 'bin':
            op = str(rng.choice(['add', 'sub', 'mul', 'mul', 'div', 'max', 'min']))
            if op == 'div':
                other = self.scalar(pow2=True) if rng.random() < 0.5 else self.operand(v, nonzero=True)
            elif op in ('max', 'min'):
                if k == 'c':
                    base = ['un', str(rng.choice(['re', 'im'])), sp, base]
                other = self.operand(v, kind='r')
                if self.kind_of_val(self.val(other)) == 'c':
                    other = ['un', 're', sp, other]
            else:
                other = self.operand(v)
            e = ['bin', op, sp, base, other] if rng.random() < 0.7 else ['bin', op, sp, other, base]
            if op == 'div':
                e = ['bin', op, sp, base, other]
        elif c == 'un':
            u = str(rng.choice(['neg', 'pos', 'abs', 'sq', 'conj', 're', 'im']))
            if u == 'abs' and k == 'c':
                base = ['un', 're', sp, base]
            e = ['un', u, sp, base]
        elif c == 'red':
            r = str(rng.choice(['sum', 'sum', 'mean', 'max', 'min']))
            ax = str(rng.choice(['all', 'last', 'last', 'first']))
            if np.ndim(v) == 0:
                ax = 'all'
            if r in ('max', 'min') and k == 'c':
                base = ['un', 're', sp, base]
            e = ['red', r, ax, sp, base]
        elif c == 'idx':
            if np.ndim(v) == 0 or 0 in np.shape(v):
                e = ['copy', sp, base]
            else:
                form = str(rng.choice(['at0', 'atl', 'sl', 'sl']))
                n0, nl = np.shape(v)[0], np.shape(v)[-1]
                oob = rng.random() < 0.04
                if form == 'at0':
                    args = [int(rng.integers(-n0, n0)) if not oob else n0 + int(rng.integers(0, 3))]
                elif form == 'atl':
                    args = [int(rng.integers(-nl, nl)) if not oob else -nl - 1 - int(rng.integers(0, 3))]
                else:
                    a = int(rng.integers(0, nl + 1))
                    args = [a, int(rng.integers(a, nl + 3)), int(rng.integers(1, 4))]
                e = ['idx', form, args, base]
        elif c == 'mask':
            m = self.mask_for(base)
            e = ['mask', base, m] if m is not None else ['copy', sp, base]
        elif c == 'shape':
            r = rng.random()
            to, tn = self.tags_of(base)
            if r < 0.45 and to[0] == 'f' and to == tn:
                e = ['shaped', base, int(to[1:])]
                r2 = rng.random()
                if r2 < 0.06 and k != 'c':
                    # .shaped of a 0-d result: a 0-d Field on the subclass route, a scalar on the wrapper route
                    e = ['shaped', ['red', str(rng.choice(['sum', 'max', 'min'])), 'all', sp, base], int(to[1:])]
                elif r2 < 0.10 and k != 'b' and np.ndim(v) >= 1:
                    # .shaped of np.where(...): a bare ndarray on the subclass route, a Field on the wrapper route
                    m = self.mask_like(base)
                    if m is not None:
                        inner = ['app3', 'where', sp, m, base, self.scalar('r')]
                        wo, wn = self.tags_of(inner)      # the wrapper attaches the grid of the leftmost Field argument (the mask's, if it is one)
                        if wn[0] == 'f' and wo[0] != 'f':
                            e = ['shaped', inner, int(wn[1:])]
            elif r < 0.45 and to != tn and (to[0] == 'f' or tn[0] == 'f') and rng.random() < 0.6:
                # a Field under one style only (accepted divergence; see `oracle`)
                e = ['shaped', base, int((to if to[0] == 'f' else tn)[1:])]
            elif r < 0.75 and np.ndim(v) >= 1:
                size = int(np.size(v))
                divs = [d for d in range(1, size + 1) if size % d == 0]
                d = int(rng.choice(divs))
                shape = [d, size // d] if rng.random() < 0.8 else [size]
                if rng.random() < 0.04:
                    shape = [size + 1]
                e = ['reshape', shape, sp, base]
            elif np.ndim(v) >= 1:
                e = ['ravel', sp, base]
            else:
                e = ['copy', sp, base]
        elif c == 'copy':
            e = ['copy', sp, base]
        elif c == 'pickle':
            e = ['pickle', sp, base]
        else:
            names = sorted(EXT)
            name = names[int(rng.integers(0, len(names)))]
            if rng.random() < 0.1:
                # conversions through the array protocol (copy / share contract) get a share of their own
                names = sorted(n for n in EXT if EXT[n].get('mem'))
                name = names[int(rng.integers(0, len(names)))]
            if EXT[name].get('fieldonly'):
                # library functions for Fields: only on values that are Fields under both styles
                to, tn = self.tags_of(base) if base[0] != 'ext' else ('?', '?')
                if not (to[0] == 'f' and to == tn):
                    name = 'npcopy'
            args = [base] if EXT[name]['ar'] == 1 else [base, self.operand(v)]
            if EXT[name].get('fieldonly') and len(args) == 2:
                # … and the other operand must be the same kind of object under both styles
                t2 = self.tags_of(args[1]) if args[1][0] != 'ext' else ('?', '?')
                if t2[0] != t2[1] or t2[0] == '?':
                    args[1] = base
            e = ['ext', name, args]
        if depth < 2 and rng.random() < 0.3 and c not in ('ext',) and k != 'b':
            # wrap once more in an arithmetic node
            e = ['bin', str(rng.choice(['add', 'mul', 'sub'])), sp, e, self.scalar()] if rng.random() < 0.5 else ['un', str(rng.choice(['neg', 'conj', 'sq'])), sp, e]
        return e

    def exact(self, e):
        return self.level(e) <= 3

    def decidable(self, l, r):
        """may `l <op> r` be stored: its truth value must not hinge on rounding"""
        if self.exact(l) and self.exact(r):
            return True
        lv, rv = np.asarray(self.val(l)), np.asarray(self.val(r))
        try:
            return bool(np.min(np.abs(lv - rv)) > 1e-6)
        except ValueError:
            return True      # shapes do not broadcast: an error case, decided before any comparison

    def same_shape_var(self, shape, pred):
        c = [x for x in self.live() if self.shape_of(x) == tuple(shape) and pred(self.kind_of_val(self.plain.env[x]))]
        return ['var', int(self.rng.choice(c))] if c else None

    def real_part(self, e):
        return ['un', str(self.rng.choice(['re', 'im'])), 0, e] if self.kind_of_val(self.val(e)) == 'c' else e

    def expr_new(self, c, base, v, k, sp):
        rng = self.rng
        nd = np.ndim(v)
        if c == 'cmp':
            op = str(rng.choice(['gt', 'lt', 'ge', 'le', 'eq', 'ne']))
            l = base if op in ('eq', 'ne') else self.real_part(base)
            r = self.operand(v, kind=None if op in ('eq', 'ne') else 'r')
            if op not in ('eq', 'ne'):
                r = self.real_part(r)
            if op in ('eq', 'ne') and rng.random() < 0.4:
                r = ['copy', 1, l] if rng.random() < 0.5 else ['un', 'conj', 0, l]       # equal (or conjugate) values
            if self.kind_of_val(self.val(r)) == 'b' or not self.decidable(l, r):
                return None
            return ['bin', op, sp, l, r]
        if c == 'not':
            return ['un', 'not', sp, base] if k == 'b' else None
        if c == 'logic':
            if k != 'b':
                return None
            o = self.same_shape_var(np.shape(v), lambda kk: kk == 'b') or ['un', 'not', 0, base]
            return ['bin', str(rng.choice(['and', 'or'])), sp, base, o]
        if c == 'boolred':
            if k != 'b':
                return None
            r = str(rng.choice(['any', 'all', 'sum']))
            return ['red', r, str(rng.choice(['all', 'last'])) if nd else 'all', sp, base]
        if c == 'redx':
            if k == 'b' or nd == 0:
                return None
            r = str(rng.choice(['sum', 'mean', 'max', 'min', 'prod']))
            ax = str(rng.choice(['all', 'last', 'first']))
            b = self.real_part(base) if r in ('max', 'min') else base
            if r == 'prod':
                ax = 'first' if nd >= 2 else 'all'
                if nd == 1 and np.shape(v)[0] > 6:
                    return None
            return ['app1', 'rk', [r, ax], sp, b] if rng.random() < 0.75 else ['red', r, ax, sp, b]
        if c == 'scan':
            if k == 'b' or nd == 0 or 0 in np.shape(v):
                return None
            f = 'cs' if rng.random() < 0.75 else 'cp'
            ax = str(rng.choice(['all', 'last', 'first']))
            if f == 'cp':
                if nd < 2:
                    return None
                ax = 'first'
            return ['app1', f, [ax], sp, base]
        if c in ('sort', 'arg'):
            if k == 'b' or nd == 0 or 0 in np.shape(v) or not self.exact(base):
                return None
            if c == 'sort':
                return ['app1', str(rng.choice(['sort', 'argsort'])), [], sp, base]
            return ['app1', str(rng.choice(['amax', 'amin'])), [str(rng.choice(['all', 'last']))], sp, self.real_part(base)]
        if c == 'astype':
            to = str(rng.choice(['c', 'r', 'i', 'b'] if k != 'c' else ['c', 'b']))
            if to in ('i', 'b') and not self.exact(base):
                return None
            return ['app1', 'as', [to], sp, base]
        if c == 'where':
            if k == 'b':
                cond = base
                a = self.same_shape_var(np.shape(v), lambda kk: kk != 'b') or self.scalar()
            else:
                cond = self.mask_like(base)
                a = base
            if cond is None:
                return None
            b = self.operand(self.val(a)) if rng.random() < 0.7 else self.scalar()
            if self.kind_of_val(self.val(b)) == 'b':
                return None
            return ['app3', 'where', sp, cond, a, b] if rng.random() < 0.6 else ['app3', 'where', sp, cond, b, a]
        if c == 'clip':
            if k == 'b':
                return None
            a = self.real_part(base)
            lo = self.scalar('r') if rng.random() < 0.6 else self.real_part(self.operand(v, kind='r'))
            hi = ['bin', 'add', 0, lo, ['scal', 'r', float(rng.integers(0, 5)), 0.0, 0]]
            if self.kind_of_val(self.val(lo)) == 'b':
                return None
            return ['app3', 'clip', sp, a, lo, hi]
        if c in ('fdot', 'ftrace'):
            to, tn = self.tags_of(base)
            if not (to[0] == 'f' and to == tn) or k == 'b':
                return None
            shp = np.shape(v)
            if not shp or shp[-1] != int(np.prod(self.grids[int(to[1:])]['dims'])):
                return None           # not a valid field any more (e.g. after a slice or keepdims reduction)
            if c == 'ftrace':
                return ['app1', 'ftrace', [], sp, base] if (len(shp) == 3 and shp[0] == shp[1]) or rng.random() < 0.03 else None
            if len(shp) not in (2, 3) or 1 in shp[:-1]:
                return None           # (einsum broadcasts tensor axes of length one; not modelled)
            n = shp[-1]
            def ok(x):
                s2 = self.shape_of(x)
                t2 = self.info[x]['tags']
                if not (t2[0][0] == 'f' and t2[0] == t2[1]) or self.kind_of_val(self.plain.env[x]) == 'b':
                    return False
                if s2 and s2[-1] != int(np.prod(self.grids[int(t2[0][1:])]['dims'])):
                    return False          # not a valid field any more (fancy-indexed to the length of another grid)
                return len(s2) in (2, 3) and s2[-1] == n and 1 not in s2[:-1]
            cands = [x for x in self.live() if ok(x)]
            o = ['var', int(rng.choice(cands))] if cands and rng.random() < 0.7 else self.field_lit(g=int(to[1:]), tensor=[[shp[-2]], [shp[-2], 2], [shp[-2], 3]][int(rng.integers(0, 3))])
            return ['app2', 'fdot', sp, base, o] if rng.random() < 0.6 else ['app2', 'fdot', sp, o, base]
        if c == 'mm1':
            if nd != 1 or k == 'b' or np.shape(v)[0] == 0:
                return None
            o = self.same_shape_var(np.shape(v), lambda kk: kk != 'b') or base
            return ['app2', 'mm1', sp, base, o]
        if c == 'pslice':
            if nd == 0 or 0 in np.shape(v):
                return None
            n = np.shape(v)[-1]
            def bound():
                return None if rng.random() < 0.35 else int(rng.integers(-n - 2, n + 3))
            step = int(rng.choice([-1, -1, -2, -3, 1, 2])) if rng.random() < 0.97 else 0
            return ['idx', 'psl', [bound(), bound(), step], base]
        if c == 'take':
            if nd == 0 or 0 in np.shape(v):
                return None
            n = np.shape(v)[-1]
            l = [int(rng.integers(-n, n)) for _ in range(int(rng.integers(1, 5)))]
            if rng.random() < 0.04:
                l.append(n + int(rng.integers(0, 2)))
            return ['idx', 'tk', [l], base]
        return None

    def mask_like(self, base):
        """a boolean array of the full shape of `base` (or of its last axis)"""
        v = self.val(base)
        if np.ndim(v) == 0:
            return None
        if self.rng.random() < 0.5:
            return self.mask_for(base)
        l = self.real_part(base)
        thr = self.scalar('r')
        if not self.decidable(l, thr):
            return None
        return ['bin', str(self.rng.choice(['gt', 'lt', 'ge', 'le'])), 0, l, thr]

    def mask_for(self, base):
        """a boolean mask over the last axis of `base` whose value does not hinge on rounding"""
        rng = self.rng
        v = self.val(base)
        if np.ndim(v) == 0:
            return None
        n = np.shape(v)[-1]
        if n == 0:
            return None
        cands = [x for x in self.live() if self.shape_of(x) == (n,) and self.kind_of_val(self.plain.env[x]) != 'b']
        if cands and rng.random() < 0.7:
            src = ['var', int(rng.choice(cands))]
        else:
            re, _ = gen_values(rng, [n], 'r')
            src = ['lit', [n], 'r', re, []] if rng.random() < 0.5 else None
            if src is None:
                g = next((i for i, s in enumerate(self.grids) if int(np.prod(s['dims'])) == n), None)
                src = ['field', g, [n], 'r', re, []] if g is not None else ['lit', [n], 'r', re, []]
        if self.kind_of_val(self.val(src)) == 'c':
            src = ['un', str(rng.choice(['re', 'im'])), 0, src]
        thr = self.scalar('r')
        sv, tv = np.asarray(self.val(src)), self.val(thr)
        if self.level(src) > 3 and np.min(np.abs(sv - tv)) < 1e-6:
            return None
        return ['bin', str(rng.choice(['gt', 'lt'])), int(rng.integers(0, 2)), src, thr]

    # ---- statements
    def try_add(self, stmt, target_info=None):
        """run the statement on the plain reference; keep it if the values stay finite"""
        saved = dict(self.plain.env)
        try:
            with warnings.catch_warnings():
                warnings.simplefilter('error')
                x = self.plain.st(stmt)
                v = self.plain.env[x]
        except MachineryError:
            raise
        except (ValueError, IndexError, TypeError) as e:
            # deliberate error cases are kept as the last statement of the program; a TypeError of an
            # extended operation usually stems from a 0-d value being a scalar on plain arrays
            if isinstance(e, TypeError) and has_ext({'stmts': [stmt]}):
                self.plain.env = saved
                return None
            self.plain.env = saved
            return 'error'
        except Exception:
            self.plain.env = saved
            return None
        flat = []
        def walk(o):
            if isinstance(o, tuple):
                for y in o:
                    walk(y)
            elif isinstance(o, (np.ndarray, np.generic, float, complex, int)):
                flat.append(np.asarray(o))
        walk(v)
        if any(a.dtype.kind in 'fc' and not np.all(np.isfinite(a)) for a in flat) or \
           any(a.dtype.kind in 'fc' and a.size and np.max(np.abs(a)) > 1e9 for a in flat):
            self.plain.env = saved
            return None
        return 'ok'

    def add_assign(self):
        e = self.expr()
        x = self.nvar
        stmt = ['assign', x, e]
        r = self.try_add(stmt)
        if r is None:
            return False
        self.stmts.append(stmt)
        if r == 'error':
            return 'error'
        self.nvar += 1
        v = self.plain.env[x]
        root = self.view_root(e)
        ok_val = isinstance(v, (np.ndarray, np.generic, float, complex, int, bool)) and not (e[0] == 'ext' and EXT[e[1]].get('fieldonly'))
        self.info[x] = {
            'level': self.level(e), 'tags': self.tags(e, v) if ok_val and e[0] != 'ext' else ('?', '?'),
            'root': self.info[root]['root'] if root is not None else self._newroot(),
            'view': root is not None, 'usable': ok_val,
            'observable': root is None or (self.observable_view(e) and self.info[root].get('observable', True)),
        }
        if not ok_val:
            # tuples, lists, strings: observed once, not used as operands
            del self.info[x]
            self.plain.env.pop(x, None)
            self.final_extra = getattr(self, 'final_extra', [])
        return True

    def _newroot(self):
        self.nroot += 1
        return self.nroot

    def owners(self):
        return [x for x in self.live() if not self.info[x]['view'] and np.ndim(self.plain.env[x]) >= 1
                and getattr(self.plain.env[x], 'flags', None) is not None and self.plain.env[x].flags.writeable
                and self.kind_of_val(self.plain.env[x]) != 'b' and self.info[x]['tags'][0] != '?']

    def observable_view(self, e):
        """`e` is built from variables by basic indexing / reshape / ravel / shaped / real / imag only: whether such a value shares
        memory with its root is decided by NumPy on the underlying data, identically for plain arrays and both Field styles"""
        t = e[0]
        if t == 'var':
            return True
        if t == 'idx':
            return e[1] in ('at0', 'atl', 'sl', 'psl') and self.observable_view(e[3])
        if t == 'shaped':
            return self.observable_view(e[1])
        if t == 'reshape':
            return self.observable_view(e[3])
        if t == 'ravel':
            return self.observable_view(e[2])
        if t == 'un' and e[1] in ('re', 'im'):
            return self.observable_view(e[3])
        if t == 'ext' and EXT[e[1]].get('mem'):
            # conversions whose memory relation to the source is fixed by NumPy's contract (copy / share)
            return all(self.observable_view(x) for x in e[2])
        return False

    def kill_views(self, x):
        """after an in-place statement on `x`: values derived from the same memory are no longer used as operands (the
        model's stores copy on assignment) — but they stay in the read-out of the plain / old / new oracle (`final_views`)"""
        root = self.info[x]['root']
        for y in list(self.info):
            if self.info[y]['root'] == root and self.info[y]['view']:
                if self.info[y].get('observable') and np.ndim(self.plain.env.get(y)) >= 1:
                    self.view_obs.append(y)
                del self.info[y]
                self.plain.env.pop(y, None)

    def add_inplace(self):
        rng = self.rng
        own = self.owners()
        if not own:
            return False
        x = int(rng.choice(own))
        xv = self.plain.env[x]
        if 0 in np.shape(xv):
            return False
        k = self.kind_of_val(xv)
        shape = list(np.shape(xv))
        r = rng.random()

        def value(sel_shape, allow_cplx):
            q = rng.random()
            kind = None if allow_cplx else 'r'
            if q < 0.35:
                e = self.scalar(kind)
            elif q < 0.7:
                re, im = gen_values(rng, sel_shape, kind or ('c' if rng.random() < 0.3 else 'r'))
                e = ['lit', list(sel_shape), 'c' if im else 'r', re, im]
            else:
                c = [y for y in self.live() if list(self.shape_of(y)) == list(sel_shape) and self.kind_of_val(self.plain.env[y]) != 'b']
                e = ['var', int(rng.choice(c))] if c else self.scalar(kind)
            if not allow_cplx and self.kind_of_val(self.val(e)) == 'c':
                e = ['un', 're', 0, e]
            return e

        if self.ext and r < 0.3:
            names = sorted(n for n in XSTMT if (not XSTMT[n].get('cplx') or k == 'c') and (not XSTMT[n].get('real') or k in ('r', 'i')))
            name = names[int(rng.integers(0, len(names)))]
            spec = XSTMT[name]
            args = []
            if spec.get('ar'):
                args = [self.scalar('r' if (k != 'c' or spec.get('cplx')) else None)] if (spec.get('scalar') or rng.random() < 0.5) else [value(shape, k == 'c')]
            stmt = ['xstmt', x, name, args]
        elif r < 0.42 and not self.ext:
            stmt = self.new_inplace(x, xv, k, shape, value)
            if stmt is None:
                return False
        elif k == 'i' and r < 0.55:
            stmt = ['fill', x, ['scal', 'r', float(rng.integers(-4, 5)) + (0.5 if rng.random() < 0.3 else 0.0), 0.0, 0]]
        elif r < 0.55:
            op = str(rng.choice(['add', 'sub', 'mul', 'div']))
            if op == 'div':
                e = self.scalar(pow2=True)
            elif rng.random() < 0.08 and k == 'r':
                e = self.scalar('c')                      # complex into real: TypeError under every style
            else:
                e = value(shape if rng.random() < 0.6 else shape[-1:], k == 'c')
            stmt = ['iop', x, op, e]
        elif r < 0.8:
            form, args, sel = self.index_form(shape)
            e = value(sel, k == 'c') if rng.random() < 0.7 else self.scalar('r' if k != 'c' else None)
            stmt = ['setix', x, form, args, e]
        else:
            m = self.mask_for(['var', x])
            if m is None:
                return False
            cnt = int(np.count_nonzero(self.val(m)))
            q = rng.random()
            if q < 0.5:
                e = self.scalar('r' if k != 'c' else None)
            else:
                c = [y for y in self.live() if self.shape_of(y) == tuple(shape) and (k == 'c' or self.kind_of_val(self.plain.env[y]) == 'r') and self.kind_of_val(self.plain.env[y]) != 'b']
                e = ['mask', ['var', int(rng.choice(c))], m] if c else value(shape[:-1] + [cnt], k == 'c')
            stmt = ['setmask', x, m, e]
        res = self.try_add(stmt)
        if res is None:
            return False
        self.stmts.append(stmt)
        if res == 'error':
            return 'error'
        lev_e = 9 if stmt[0] == 'xstmt' else 1 if stmt[0] == 'sortip' else max([self.level(q) for q in stmt[2:] if isinstance(q, list) and q and isinstance(q[0], str) and q[0] in EXPR_HEADS] + [1])
        if stmt[0] in ('iopix', 'iopmask', 'out') and stmt[2] in ('mul', 'div'):
            lev_e = 9 if stmt[2] == 'div' else lev_e + self.info[x]['level']
        te = self.tags_of(stmt[3]) if stmt[0] == 'iop' else None
        self.kill_views(x)
        if stmt[0] == 'iop':
            # a plain array updated in place with a Field operand becomes a Field under the wrapper
            to, tn = self.info[x]['tags']
            if tn == 'p' and te[1][0] == 'f':
                tn = te[1]
            for y in self.live():
                if y == x:
                    self.info[y]['tags'] = (to, tn)
            self.info[x]['level'] = 9 if stmt[2] == 'div' else max(self.info[x]['level'], lev_e) + (lev_e if stmt[2] == 'mul' else 0)
        elif stmt[0] == 'xstmt':
            self.info[x]['level'] = 9
            if XSTMT[stmt[2]].get('rebinds'):
                self.info[x]['tags'] = ('?', '?')
        else:
            self.info[x]['level'] = max(self.info[x]['level'], lev_e)
        for y in self.live():      # aliases share the object
            if y != x and self.info[y]['root'] == self.info[x]['root'] and not self.info[y]['view']:
                self.info[y]['level'] = self.info[x]['level']
        return True

    def index_form(self, shape):
        """(form, args, shape of the selection) for an item read-modify-write on an array of `shape`"""
        rng = self.rng
        form = str(rng.choice(['at0', 'atl', 'sl', 'psl', 'tk']))
        n0, nl = shape[0], shape[-1]
        if form == 'at0':
            return form, [int(rng.integers(-n0, n0))], shape[1:]
        if form == 'atl':
            return form, [int(rng.integers(-nl, nl))], shape[:-1]
        if form == 'sl':
            a = int(rng.integers(0, nl + 1))
            args = [a, int(rng.integers(a, nl + 2)), int(rng.integers(1, 3))]
            return form, args, shape[:-1] + [len(range(nl)[args[0]:args[1]:args[2]])]
        if form == 'psl':
            def bound():
                return None if rng.random() < 0.4 else int(rng.integers(-nl - 1, nl + 2))
            args = [bound(), bound(), int(rng.choice([-1, -2, 1, 2]))]
            return form, args, shape[:-1] + [len(range(nl)[slice(*args)])]
        l = [int(rng.integers(-nl, nl)) for _ in range(int(rng.integers(1, 4)))]
        return form, [l], shape[:-1] + [len(l)]

    def new_inplace(self, x, xv, k, shape, value):
        """the in-place statements beyond `x op= e` / `x[i] = e` / `x[mask] = e`"""
        rng = self.rng
        kinds = ['iopix', 'iopix', 'iopmask', 'out', 'out', 'setreal', 'sortip', 'fill']
        if k == 'c':
            kinds += ['setimag', 'setimag', 'setreal']
        if k == 'i':
            kinds = ['fill', 'sortip', 'out']
        c = str(rng.choice(kinds))
        def operand_for(sel):
            q = rng.random()
            if q < 0.45:
                return self.scalar('r' if k != 'c' else None)
            return value(sel if q < 0.85 else sel[-1:], k == 'c')
        if c == 'iopix':
            form, args, sel = self.index_form(shape)
            if form == 'at0' and not sel:
                return None           # x[i] op= e on a 1-d array works on a scalar copy
            op = str(rng.choice(['add', 'sub', 'mul', 'div']))
            e = self.scalar(pow2=True) if op == 'div' else operand_for(sel)
            return ['iopix', x, op, form, args, e]
        if c == 'iopmask':
            m = self.mask_for(['var', x])
            if m is None:
                return None
            op = str(rng.choice(['add', 'sub', 'mul']))
            return ['iopmask', x, op, m, self.scalar('r' if k != 'c' else None)]
        if c == 'out':
            op = str(rng.choice(['add', 'sub', 'mul', 'max', 'min', 'div']))
            a = ['var', x] if rng.random() < 0.6 else (self.same_shape_var(shape, lambda kk: kk != 'b') or ['var', x])
            b = self.scalar(pow2=True) if op == 'div' else operand_for(shape)
            if op in ('max', 'min'):
                a, b = self.real_part(a), self.real_part(b)
            return ['out', x, op, a, b] if rng.random() < 0.7 or op == 'div' else ['out', x, op, b, a]
        if c in ('setreal', 'setimag'):
            if c == 'setimag' and k != 'c' and rng.random() < 0.9:
                return None
            e = self.real_part(operand_for(shape))
            return [c, x, e]
        if c == 'sortip':
            if not self.exact(['var', x]):
                return None
            return ['sortip', x]
        e = self.scalar('r' if k != 'c' else None)
        return ['fill', x, e]

    def add_alias(self):
        c = self.live()
        if not c:
            return False
        x = int(self.rng.choice(c))
        h = self.nvar
        stmt = ['alias', h, x]
        self.plain.st(stmt)
        self.stmts.append(stmt)
        self.nvar += 1
        self.info[h] = dict(self.info[x])
        return True

    def build(self, nst):
        rng = self.rng
        # two or three fields to start from
        for _ in range(int(rng.integers(1, 4))):
            x = self.nvar
            e = self.field_lit(tensor=self.tensor if rng.random() < 0.8 else None)
            self.stmts.append(['assign', x, e])
            self.plain.st(self.stmts[-1])
            self.info[x] = {'level': 1, 'tags': ('f%d' % e[1],) * 2, 'root': self._newroot(), 'view': False, 'usable': True}
            self.nvar += 1
        tries = 0
        while len(self.stmts) < nst and tries < 6 * nst:
            tries += 1
            r = rng.random()
            if r < 0.62:
                res = self.add_assign()
            elif r < 0.72:
                res = self.add_alias()
            else:
                res = self.add_inplace()
            if res == 'error':
                break
        return {'grids': self.grids, 'stmts': self.stmts, 'final': self.live(), 'final_views': sorted(set(self.view_obs))}


def gen_program(rng, ext=False, big=False):
    b = Builder(rng, ext, big)
    return b.build(int(rng.integers(4, 11 if not big else 16)))


# ---------------------------------------------------------------------------------------------
# library pipelines, run under every configuration combination

def _pipelines():
    import hcipy as h
    P = {}

    def fraunhofer(p):
        pg = h.make_pupil_grid(p['n']); fg = h.make_focal_grid(p['q'], p['nairy'])
        wf = h.Wavefront(h.make_circular_aperture(1)(pg) * np.exp(1j * pg.x * p['tilt']), 1.0)
        prop = h.FraunhoferPropagator(pg, fg)
        out = prop.forward(wf)
        return [out.power, out.electric_field, prop.backward(out).electric_field, out.total_power]
    P['fraunhofer'] = fraunhofer

    def fresnel(p):
        pg = h.make_pupil_grid(p['n'], 0.01)
        wf = h.Wavefront(h.make_circular_aperture(0.008)(pg), 1e-6)
        prop = h.FresnelPropagator(pg, 0.1 * p['q'])
        out = prop.forward(wf)
        return [out.power, out.electric_field, prop.backward(out).electric_field]
    P['fresnel'] = fresnel

    def angular(p):
        pg = h.make_pupil_grid(p['n'], 0.01)
        wf = h.Wavefront(h.make_circular_aperture(0.008)(pg), 1e-6)
        out = h.AngularSpectrumPropagator(pg, 0.01 * p['q'])(wf)
        return [out.power, out.electric_field]
    P['angular'] = angular

    def zernike(p):
        pg = h.make_pupil_grid(p['n'])
        basis = h.make_zernike_basis(8, 1, pg)
        f = h.Field(np.sin(3 * pg.x) * h.make_circular_aperture(1)(pg) + pg.y**2, pg)
        c = basis.coefficients_for(f)
        return [c, basis.linear_combination(c), basis.transformation_matrix]
    P['zernike'] = zernike

    def fft(p):
        pg = h.make_pupil_grid([p['n'], p['n'] + p['odd']])
        f = h.Field(np.exp(1j * pg.x * p['tilt']) * (pg.as_('polar').r < 0.4), pg)
        ft = h.FastFourierTransform(pg, p['q'], 0.5 + 0.25 * p['odd'], shift=[0.5 * p['odd'], 0.25])
        F = ft.forward(f)
        return [F, ft.backward(F)]
    P['fft'] = fft

    def fft_c64(p):
        pg = h.make_pupil_grid(p['n'])
        f = h.Field((np.exp(1j * pg.x * p['tilt']) * (pg.as_('polar').r < 0.4)).astype('complex64'), pg)
        ft = h.FastFourierTransform(pg, p['q'], 1)
        F = ft.forward(f)
        B = ft.backward(F)
        return [F, B, np.array([str(F.dtype) == 'complex64', str(B.dtype) == 'complex64'], dtype=float)]
    P['fft_c64'] = fft_c64

    def mft(p):
        pg = h.make_pupil_grid(p['n']); fg = h.make_focal_grid(p['q'], p['nairy'])
        f = h.Field(np.exp(1j * pg.x * p['tilt']) * (pg.as_('polar').r < 0.4), pg)
        ft = h.MatrixFourierTransform(pg, fg)
        F = ft.forward(f)
        F2 = ft.forward(f * 2)          # second call: precomputed matrices / allocated intermediate reused
        return [F, ft.backward(F), F2]
    P['mft'] = mft

    def nft(p):
        pg = h.make_pupil_grid(min(p['n'], 12)); fg = h.make_focal_grid(2, 3)
        f = h.Field(np.exp(1j * pg.x * p['tilt']) * (pg.as_('polar').r < 0.4), pg)
        ft = h.NaiveFourierTransform(pg, fg)
        F = ft.forward(f)
        return [F, ft.backward(F), ft.forward(f)]
    P['nft'] = nft

    def tensor_ft(p):
        pg = h.make_pupil_grid(8 + p['odd'])
        f = h.Field((np.arange(2 * 2 * pg.size).reshape(2, 2, pg.size) % 7 - 3) * (1 + 0.5j), pg)
        ft = h.make_fourier_transform(pg, q=p['q'], fov=1)
        F = ft.forward(f)
        return [F, ft.backward(F)]
    P['tensor_ft'] = tensor_ft

    def dm(p):
        pg = h.make_pupil_grid(p['n'])
        d = h.DeformableMirror(h.make_gaussian_influence_functions(pg, 4, 0.25))
        d.actuators = np.arange(16) * 1e-8
        wf = h.Wavefront(h.make_circular_aperture(1)(pg), 1e-6)
        return [d.surface, d.forward(wf).electric_field]
    P['dm'] = dm

    def lyot(p):
        pg = h.make_pupil_grid(p['n']); fg = h.make_focal_grid(p['q'], p['nairy'])
        wf = h.Wavefront(h.make_circular_aperture(1)(pg), 1.0)
        c = h.LyotCoronagraph(pg, 1 - h.make_circular_aperture(2)(fg), h.make_circular_aperture(0.9)(pg))
        return [c.forward(wf).electric_field]
    P['lyot'] = lyot

    def vortex(p):
        pg = h.make_pupil_grid(p['n'])
        wf = h.Wavefront(h.make_circular_aperture(1)(pg), 1.0)
        v = h.VortexCoronagraph(pg, 2, q=32, scaling_factor=2, window_size=8)
        return [v.forward(wf).electric_field]
    P['vortex'] = vortex

    def polar(p):
        pg = h.make_pupil_grid(p['n'])
        wf = h.Wavefront(h.make_circular_aperture(1)(pg), 1.0, input_stokes_vector=(1, 0.3, -0.2, 0.1))
        out = h.LinearPolarizer(0.2)(h.QuarterWavePlate(0.3)(wf))
        fg = h.make_focal_grid(2, 3)
        img = h.FraunhoferPropagator(pg, fg)(out)
        return [out.I, out.Q, out.U, out.V, out.electric_field, img.I, img.V]
    P['polar'] = polar

    def detector(p):
        pg = h.make_pupil_grid(p['n']); fg = h.make_focal_grid(2, 4)
        im = h.FraunhoferPropagator(pg, fg)(h.Wavefront(h.make_circular_aperture(1)(pg), 1.0))
        d = h.NoiselessDetector(fg)
        d.integrate(im, 2.0)
        return [d.read_out()]
    P['detector'] = detector

    def atmos(p):
        pg = h.make_pupil_grid(p['n'])
        cn2 = h.Cn_squared_from_fried_parameter(0.3, 1e-6)
        layer = h.FiniteAtmosphericLayer(pg, cn2, 10, np.array([3.0, 1.0]), 0, seed=7)
        layer.t = 0.1
        wf = h.Wavefront(h.Field(np.ones(pg.size), pg), 1e-6)
        inf = h.InfiniteAtmosphericLayer(pg, cn2, 10, np.array([3.0, 1.0]), 0, seed=7)
        inf.t = 0.05
        return [layer.phase_for(1e-6), layer.forward(wf).electric_field, inf.phase_for(1e-6)]
    P['atmos'] = atmos

    def interp(p):
        pg = h.make_pupil_grid(16)
        f = h.Field(pg.x**2 + pg.y, pg)
        g2 = h.make_pupil_grid(7, 0.8)
        return [h.make_linear_interpolator_separated(f)(g2), h.subsample_field(f, 2), h.make_supersampled_grid(pg, 2).x]
    P['interp'] = interp

    def pyramid(p):
        pg = h.make_pupil_grid(p['n'])
        wf = h.Wavefront(h.make_circular_aperture(1)(pg), 1.0)
        o = h.PyramidWavefrontSensorOptics(pg, h.make_pupil_grid(2 * p['n'], 2), wavelength_0=1, q=2)
        return [o.forward(wf).power]
    P['pyramid'] = pyramid

    def apod(p):
        pg = h.make_pupil_grid(p['n'])
        s = h.SurfaceApodizer(h.Field(pg.x * 1e-7, pg), 1.5)
        wf = h.Wavefront(h.Field(np.ones(pg.size), pg), 1e-6)
        a = h.Apodizer(h.Field(pg.x, pg))
        return [s(wf).electric_field, a(wf).electric_field, s.backward(wf).electric_field]
    P['apod'] = apod

    def perfect(p):
        pg = h.make_pupil_grid(p['n'])
        ap = h.make_circular_aperture(1)(pg)
        c = h.PerfectCoronagraph(ap, 2)
        wf = h.Wavefront(ap * np.exp(1j * pg.x * p['tilt']), 1.0)
        return [c.forward(wf).electric_field]
    P['perfect'] = perfect

    def backend_direct(p):
        # hcipy/_math/fft.py itself: every function, four dtypes; values and result dtypes
        from hcipy._math import fft as F
        rs = np.random.RandomState(p['n'])
        n = p['n']
        out = []
        codes = {'float32': 1., 'float64': 2., 'complex64': 3., 'complex128': 4.}
        dt = []
        for dtype in ('float32', 'float64', 'complex64', 'complex128'):
            x = rs.randint(-8, 9, (n, n + p['odd'])).astype(dtype)
            if dtype.startswith('complex'):
                x = x + 1j * rs.randint(-8, 9, x.shape).astype(dtype)
                x = x.astype(dtype)
            res = [F.fft(x), F.ifft(x), F.fft2(x), F.ifft2(x), F.fftn(x), F.ifftn(x), F.fft(x, axis=0), F.fftn(x, axes=(0,))]
            if not dtype.startswith('complex'):
                r = F.rfft(x)
                res += [r, F.irfft(r, x.shape[-1]), F.rfft2(x), F.rfftn(x), F.irfft2(F.rfft2(x), x.shape), F.irfftn(F.rfftn(x), x.shape), F.ihfft(x)]
            else:
                res += [F.hfft(x, 2 * x.shape[-1] - 2)]
            out += res
            dt += [codes.get(str(r.dtype), 0.) for r in res]
        return out + [np.array(dt)]
    P['backend_direct'] = backend_direct
    return P


METHODS = [['scipy'], ['numpy'], ['mkl', 'fftw', 'numpy'], ['mkl', 'scipy', 'fftw', 'numpy']]


def all_combos(full=False):
    """quick: 64 combinations in which every *pair* of switches takes all four settings (nft_pre = mft_pre xor mft_alloc,
    so the two precompute switches vary independently of each other); full: the whole product (128; two of the six thorough rounds)"""
    res = []
    for new, emu, pre, alloc, meth in itertools.product([False, True], [True, False], [True, False], [True, False], METHODS):
        for nft in ([True, False] if full else [pre != alloc]):
            res.append({'new_style': new, 'emulate': emu, 'mft_pre': pre, 'mft_alloc': alloc, 'nft_pre': nft, 'method': meth})
    return res


def run_pipeline(name, params, combo):
    with config(**combo), warnings.catch_warnings():
        warnings.simplefilter('error')
        warnings.filterwarnings('ignore', category=SyntaxWarning)
        warnings.filterwarnings('ignore', category=DeprecationWarning)
        import hcipy
        out = _pipelines()[name](params)
        style = type(hcipy.Field(np.zeros(2), None))
        res = []
        for o in out:
            a = PipeOut(np.asarray(o))
            # kind of object handed out: a Field (of the configured style) on which grid, or a bare array
            a.kind = ('F' if is_field(o) else 'A') if np.ndim(o) > 0 else '0'
            a.grid = o.grid if is_field(o) else None
            a.style_ok = (not is_field(o)) or type(o) is style
            res.append(a)
        return res


class PipeOut(np.ndarray):
    """the values of one pipeline output, carrying what kind of object it was"""
    def __new__(cls, arr):
        return np.array(arr).view(cls)


def compare_pipeline(ref, out):
    """None when equal within tolerance, else a description"""
    if len(ref) != len(out):
        return 'number of outputs differs'
    for i, (a, b) in enumerate(zip(ref, out)):
        if a.shape != b.shape:
            return 'output %d has shape %s instead of %s' % (i, b.shape, a.shape)
        if not b.style_ok:
            return 'output %d is a Field of the style that is not configured' % i
        if a.kind != b.kind:
            return 'output %d is %s instead of %s' % (i, {'F': 'a Field', 'A': 'a bare array', '0': '0-d'}[b.kind], {'F': 'a Field', 'A': 'a bare array', '0': '0-d'}[a.kind])
        if a.kind == 'F' and not ((a.grid is None and b.grid is None) or (a.grid is not None and b.grid is not None and a.grid == b.grid)):
            return 'output %d is a Field on a different grid' % i
        a, b = np.asarray(a), np.asarray(b)
        if a.size == 0:
            continue
        scale = float(np.max(np.abs(a)))
        tol = PIPE_TOL if (a.dtype.itemsize >= 8 and a.dtype.kind != 'c') or a.dtype.itemsize >= 16 else 2e-4
        err = float(np.max(np.abs(a - b)))
        if not err <= tol * max(scale, 1e-300):
            return 'output %d differs by %.3g (relative to its largest value %.3g)' % (i, err / max(scale, 1e-300), scale)
    return None


def nflips(combo, default):
    return sum(1 for k in combo if combo[k] != default[k] and not (k == 'method'))  + (0 if combo['method'] == default['method'] else 1)


def check_pipeline(name, params, combos, default):
    """returns list of (nflips, combo, what) for every combination that disagrees with the default"""
    try:
        ref = run_pipeline(name, params, {})
    except Exception as e:  # noqa
        # not evaluable under the default configuration; a divergence if some other combination works
        works = None
        for combo in combos:
            try:
                run_pipeline(name, params, combo)
                works = combo
                break
            except Exception:  # noqa
                pass
        if works is None:
            raise MachineryError('pipeline %s fails under every configuration: %s: %s' % (name, type(e).__name__, e))
        return [(nflips(works, default), works, 'works, whereas the default configuration raises %s: %s' % (type(e).__name__, str(e)[:100]))]
    bad = []
    for combo in combos:
        try:
            out = run_pipeline(name, params, combo)
            what = compare_pipeline(ref, out)
        except MachineryError:
            raise
        except Warning as w:
            what = 'warns %s: %s' % (type(w).__name__, str(w)[:100])
        except Exception as e:  # noqa
            what = 'raises %s: %s' % (type(e).__name__, str(e)[:100])
        if what is not None:
            bad.append((nflips(combo, default), combo, what))
    bad.sort(key=lambda t: t[0])
    return bad


# ---------------------------------------------------------------------------------------------
# one Fourier object reused across precisions, tensor shapes and directions, per configuration

def _reuse_makers():
    """name -> (make(params) -> (object, grid of forward inputs, grid of backward inputs), relevant switches)"""
    import hcipy as h
    R = {}

    def pupil(p, rect=False):
        return h.make_pupil_grid([p['n'], p['n'] + p['odd']] if rect else p['n'])

    def mft2d(p):
        pg = pupil(p, rect=True); fg = h.make_focal_grid(p['q'], p['nairy'])
        ft = h.MatrixFourierTransform(pg, fg)
        return ft, pg, fg
    R['mft2d'] = (mft2d, ('mft_pre', 'mft_alloc'))

    def mft1d(p):
        pg = h.make_uniform_grid([p['n'] + 3], [1.0]); fg = h.make_uniform_grid([2 * p['nairy'] + 1], [8.0 * p['q']])
        ft = h.MatrixFourierTransform(pg, fg)
        return ft, pg, fg
    R['mft1d'] = (mft1d, ('mft_pre', 'mft_alloc'))

    def fft(p):
        pg = pupil(p, rect=True)
        ft = h.FastFourierTransform(pg, p['q'], [1, 0.5, 0.75][p['nairy'] % 3], shift=[0.25 * p['odd'], 0.5])
        return ft, pg, ft.output_grid
    R['fft'] = (fft, ('emulate',))

    def fft1d(p):
        pg = h.make_uniform_grid([p['n'] + 3], [1.0])
        ft = h.FastFourierTransform(pg, p['q'], 1)
        return ft, pg, ft.output_grid
    R['fft1d'] = (fft1d, ('emulate',))

    def tf2(g):
        return h.Field(np.exp(-(g.as_('polar').r / 20.0)**2) * np.exp(0.05j * g.x), g)

    def filt(p):
        pg = pupil(p, rect=True)
        # padding per axis: uniform, x only, y only (the crop of the padded work array is contiguous for one of them)
        q = [p['q'], [p['q'] + 1, 1], [1, p['q'] + 1], [p['q'], 1 + p['q'] % 2]][p['nairy'] % 4]
        ff = h.FourierFilter(pg, tf2, q)
        return ff, pg, pg
    R['filter'] = (filt, ('emulate',))

    def filt1d(p):
        pg = h.make_uniform_grid([p['n'] + 3], [1.0])
        ff = h.FourierFilter(pg, lambda g: h.Field(np.exp(-(g.x / 20.0)**2) * np.exp(0.05j * g.x), g), 1 + p['q'] % 3)
        return ff, pg, pg
    R['filter1d'] = (filt1d, ('emulate',))

    def fftq(p):
        # anisotropic zero padding (per-axis q), no shift
        pg = pupil(p, rect=True)
        ft = h.FastFourierTransform(pg, [[1, p['q'] + 1], [p['q'] + 1, 1], [2, 3]][p['nairy'] % 3], 1)
        return ft, pg, ft.output_grid
    R['fftq'] = (fftq, ('emulate',))

    def nft(p):
        pg = h.make_pupil_grid(min(p['n'], 10)); fg = h.make_focal_grid(2, 2)
        ft = h.NaiveFourierTransform(pg, fg)
        return ft, pg, fg
    R['nft'] = (nft, ('nft_pre',))

    def auto(p):
        pg = pupil(p)
        ft = h.make_fourier_transform(pg, q=p['q'], fov=[1, 0.5, 0.3][p['nairy'] % 3])
        return ft, pg, ft.output_grid
    R['auto'] = (auto, ('emulate', 'mft_pre', 'mft_alloc'))

    def zoom(p):
        pg = pupil(p); fg = h.make_focal_grid(p['q'], p['nairy'])
        ft = h.ZoomFastFourierTransform(pg, fg)
        return ft, pg, fg
    R['zoom'] = (zoom, ())
    return R


REUSE_DTYPES = ['complex128', 'complex64', 'float64', 'float32']
REUSE_TENSORS = [[], [2], [2, 2], [3]]


def gen_script(rng, n_calls, complex_only=False):
    """[direction, dtype, tensor shape, data seed] per call; precision and tensor shape change on purpose"""
    script = []
    for k in range(n_calls):
        d = 'f' if rng.random() < 0.6 else 'b'
        dt = REUSE_DTYPES[int(rng.integers(0, 2 if (complex_only or d == 'b') else 4))]
        if k and rng.random() < 0.5:          # flip the precision with respect to the previous call
            single = script[-1][1] in ('complex64', 'float32')
            dt = ('complex128' if single else 'complex64')
        t = REUSE_TENSORS[int(rng.choice([0, 0, 0, 1, 2, 3]))]
        script.append([d, dt, t, int(rng.integers(0, 1000))])
    return script


DIRECTED_SCRIPTS = [
    [['f', 'complex64', [], 1], ['f', 'complex128', [], 2], ['b', 'complex128', [], 3], ['b', 'complex64', [], 4], ['f', 'complex128', [], 5]],
    [['f', 'complex128', [], 1], ['f', 'complex64', [], 2], ['f', 'complex64', [2, 2], 3], ['f', 'complex128', [2], 4], ['b', 'complex64', [2], 5],
     ['b', 'complex128', [], 6], ['f', 'float32', [], 7], ['f', 'float64', [3], 8], ['f', 'complex128', [], 1]],
]


def _reuse_field(grid, call, complex_only):
    import hcipy as h
    d, dt, tensor, seed = call
    if complex_only and not dt.startswith('complex'):
        dt = 'complex128' if dt == 'float64' else 'complex64'
    rs = np.random.RandomState(seed)
    shape = list(tensor) + [grid.size]
    a = rs.randint(-8, 9, shape).astype('float64')
    if dt.startswith('complex'):
        a = a + 1j * rs.randint(-8, 9, shape)
    return h.Field(a.astype(dt), grid)


def run_reuse(name, params, script, combo, fresh):
    """the script on ONE object (fresh=False) or on a new object per call (fresh=True)"""
    make, _ = _reuse_makers()[name]
    complex_only = name in ('filter', 'filter1d')
    out = []
    with config(**combo), warnings.catch_warnings():
        warnings.simplefilter('error')
        warnings.filterwarnings('ignore', category=SyntaxWarning)
        warnings.filterwarnings('ignore', category=DeprecationWarning)
        obj = None
        retained = []          # (call index, the result object itself, its values when it was returned)
        for i, call in enumerate(script):
            if obj is None or fresh:
                obj, gin, gout = make(params)
            f = _reuse_field(gin if call[0] == 'f' else gout, call, complex_only)
            keep = np.array(np.asarray(f))
            res = obj.forward(f) if call[0] == 'f' else obj.backward(f)
            if not np.array_equal(keep, np.asarray(f)):
                out.append(('input-modified', None))
                continue
            snap = np.array(np.asarray(res))
            out.append((snap, str(np.asarray(res).dtype)))
            if fresh:
                continue
            # results handed out earlier must still hold what they held when they were returned: a later call on the
            # same object must not write into them (a result that is a view of a work buffer, of a cached matrix, …)
            for j, r, sn in retained:
                if not np.array_equal(np.asarray(r), sn, equal_nan=True):
                    out[j] = ('result-overwritten', None, 'the result of call %d %r was changed by call %d %r on the same object' % (j, script[j], i, call))
            retained = [t for t in retained if out[t[0]][1] is not None]
            # … nor may the result depend on its input afterwards, or a later call on what the caller does with an earlier result:
            # the input of this call and the result of the previous call are overwritten by the caller now
            try:
                np.asarray(f)[...] = 7
            except ValueError:
                pass
            if not np.array_equal(np.asarray(res), snap, equal_nan=True):
                out[i] = ('result-overwritten', None, 'the result of call %d %r changed when the caller overwrote the input field afterwards' % (i, call))
                continue
            if retained and (i + script[i][3]) % 2 == 0:
                j, r, sn = retained[-1]
                try:
                    np.asarray(r)[...] = -3
                    retained[-1] = (j, r, np.array(np.asarray(r)))
                except ValueError:
                    pass
            retained.append((i, res, snap))
    return out


def compare_reuse(ref, out, script):
    for i, (a, b) in enumerate(zip(ref, out)):
        for t in (a, b):
            if isinstance(t[0], str) and t[0] == 'result-overwritten':
                return i, t[2] + ', so at the end of the script it differs'
        if a[1] is None or b[1] is None:
            if not (a[1] is None and b[1] is None):
                return i, 'the input field was modified'
            continue
        if a[1] != b[1]:
            return i, 'result dtype %s instead of %s' % (b[1], a[1])
        if a[0].shape != b[0].shape:
            return i, 'result shape %s instead of %s' % (b[0].shape, a[0].shape)
        single = script[i][1] in ('complex64', 'float32')
        scale = max(float(np.max(np.abs(a[0]))), 1e-300)
        err = float(np.max(np.abs(a[0] - b[0]))) / scale
        if not err <= (5e-4 if single else PIPE_TOL):
            return i, 'differs by %.3g relative' % err
    return None


def reuse_combos(relevant, thorough):
    seen, res = set(), []
    methods = METHODS if thorough else [['scipy'], ['numpy'], METHODS[3]]
    for new in (False, True):
        for meth in methods:
            vals = [(True, False)] * len(relevant)
            for choice in itertools.product(*vals):
                combo = {'new_style': new, 'method': meth}
                combo.update(dict(zip(relevant, choice)))
                key = repr(sorted(combo.items()))
                if key not in seen:
                    seen.add(key)
                    res.append(combo)
    return res


def check_reuse(name, params, script, combos, default):
    """list of (nflips, key suffix, combo, what)"""
    def attempt(combo, fresh):
        try:
            return run_reuse(name, params, script, combo, fresh), None
        except MachineryError:
            raise
        except Warning as w:
            return None, 'warns %s: %s' % (type(w).__name__, str(w)[:100])
        except Exception as e:  # noqa
            return None, 'raises %s: %s' % (type(e).__name__, str(e)[:100])
    ref_reuse, err = attempt({}, False)
    ref_fresh, err2 = attempt({}, True)
    if ref_fresh is None:
        raise MachineryError('reuse scenario %s cannot be evaluated with fresh objects under the default configuration: %s' % (name, err2))
    bad = []
    def flips(combo):
        return sorted(k for k in combo if combo[k] != default.get(k))
    if ref_reuse is None:
        bad.append((0, 'default vs-fresh', {}, 'one reused object %s, fresh objects do not' % err))
    else:
        d = compare_reuse(ref_fresh, ref_reuse, script)
        if d is not None:
            bad.append((0, 'default vs-fresh', {}, 'call %d %r on the reused object: %s from the same call on a fresh object' % (d[0], script[d[0]], d[1])))
    for combo in combos:
        out, e1 = attempt(combo, False)
        if out is None:
            bad.append((len(flips(combo)), '+'.join(flips(combo)) + ' raises', combo, 'one reused object %s' % e1))
            continue
        fr, e2 = attempt(combo, True)
        if fr is None:
            bad.append((len(flips(combo)), '+'.join(flips(combo)) + ' raises', combo, 'fresh objects: %s' % e2))
            continue
        d = compare_reuse(fr, out, script)
        if d is not None:
            bad.append((len(flips(combo)), '+'.join(flips(combo)) + ' vs-fresh', combo,
                        'call %d %r on the reused object: %s from the same call on a fresh object' % (d[0], script[d[0]], d[1])))
        d = compare_reuse(ref_fresh, out, script)
        if d is not None:
            bad.append((len(flips(combo)), '+'.join(flips(combo)) + ' vs-default', combo,
                        'call %d %r: %s from the default configuration' % (d[0], script[d[0]], d[1])))
    bad.sort(key=lambda t: t[0])
    return bad


# ---------------------------------------------------------------------------------------------
# non-Cartesian and explicitly weighted grids: every option combination against the defining sum

WEIGHTED_KINDS = ['polar_sep', 'polar_regular', 'polar_unstructured', 'cart_regular_w', 'cart_sep_auto', 'cart_sep_w', 'cart_unstructured_w']


def make_weighted_grid(kind, p):
    """(grid, cartesian coordinates (ndim, N) computed here, weights (N,) as passed / reported)"""
    import hcipy as h
    rs = np.random.RandomState(p['seed'])
    def w_for(n):
        return (rs.randint(1, 33, n) / 16.0)          # non-trivial dyadic weights in (0, 2]
    if kind.startswith('polar'):
        if kind == 'polar_sep':
            r = np.cumsum(rs.randint(1, 5, p['a']) / 8.0)
            th = np.sort(rs.randint(0, 64, p['b']) / 10.0)
            mk = lambda w: h.PolarGrid(h.SeparatedCoords((r, th)), weights=w)
        elif kind == 'polar_regular':
            mk = lambda w: h.PolarGrid(h.RegularCoords([0.25, 0.5], [p['a'], p['b']], [0.125, 0.0]), weights=w)
        else:
            n = p['a'] * p['b']
            r = rs.randint(1, 20, n) / 8.0
            th = rs.randint(0, 64, n) / 10.0
            mk = lambda w: h.PolarGrid(h.UnstructuredCoords((r, th)), weights=w)
        g0 = mk(None)
        rr, tt = np.array(g0.coords[0]), np.array(g0.coords[1])
        w = w_for(g0.size) * rr                      # ~ r dr dtheta with uneven cells
        return mk(w), np.array([rr * np.cos(tt), rr * np.sin(tt)]), w
    if kind == 'cart_regular_w':
        mk = lambda w: h.CartesianGrid(h.RegularCoords([0.5, 0.25], [p['a'], p['b']], [-0.75, -0.5]), weights=w)
    elif kind in ('cart_sep_auto', 'cart_sep_w'):
        x = np.cumsum(rs.randint(1, 5, p['a']) / 8.0) - 1.0
        y = np.cumsum(rs.randint(1, 5, p['b']) / 8.0) - 0.5
        mk = lambda w: h.CartesianGrid(h.SeparatedCoords((x, y)), weights=w)
    else:
        n = p['a'] * p['b']
        x, y = rs.randint(-16, 17, n) / 8.0, rs.randint(-16, 17, n) / 8.0
        mk = lambda w: h.CartesianGrid(h.UnstructuredCoords((x, y)), weights=w)
    g0 = mk(None)
    xy = np.array([np.array(g0.coords[0]), np.array(g0.coords[1])])
    if kind == 'cart_sep_auto':
        w = np.array(g0.weights) * np.ones(g0.size)   # automatic weights: taken as the grid reports them
        return g0, xy, w
    w = w_for(g0.size)
    return mk(w), xy, w


def plain_grid(p):
    import hcipy as h
    g = h.make_focal_grid(p['q'], p['nairy'])
    return g, np.array([np.array(g.x), np.array(g.y)]), np.array(g.weights) * np.ones(g.size)


def defining_matrices(xin, win, xout, wout):
    """forward F_k = sum_j w_j f_j exp(-i u_k.x_j); backward f_j = (2 pi)^-n sum_k W_k F_k exp(+i u_k.x_j)"""
    phase = xout.T @ xin                       # (Nout, Nin)
    fwd = np.exp(-1j * phase) * win[None, :]
    bwd = np.exp(1j * phase.T) * wout[None, :] / (2 * np.pi) ** xin.shape[0]
    return fwd, bwd


def check_weighted(kind, side, tname, p, combos):
    """list of (nflips-ish, what-part, combo, text)"""
    import hcipy as h
    bad = []
    for combo in combos:
        with config(**combo), warnings.catch_warnings():
            warnings.simplefilter('error')
            warnings.filterwarnings('ignore', category=SyntaxWarning)
            warnings.filterwarnings('ignore', category=DeprecationWarning)
            gw, xw, ww = make_weighted_grid(kind, p)
            if side == 'both':
                p2 = dict(p, seed=p['seed'] + 1, a=p['b'], b=p['a'])
                go, xo, wo = make_weighted_grid(kind if not kind.startswith('polar') else 'cart_regular_w', p2)
                gin, xin, win, gout, xout, wout = gw, xw, ww, go, xo, wo
            else:
                gp, xp, wp = plain_grid(p)
                gin, xin, win, gout, xout, wout = (gw, xw, ww, gp, xp, wp) if side == 'in' else (gp, xp, wp, gw, xw, ww)
            fwd, bwd = defining_matrices(xin, win, xout, wout)
            try:
                if tname == 'nft':
                    ft = h.NaiveFourierTransform(gin, gout)
                elif tname == 'mft':
                    ft = h.MatrixFourierTransform(gin, gout)
                else:
                    ft = h.make_fourier_transform(gin, gout)
                rs = np.random.RandomState(p['seed'] + 7)
                tests = []
                for tensor in ([], [2]):
                    a = (rs.randint(-8, 9, tensor + [gin.size]) + 1j * rs.randint(-8, 9, tensor + [gin.size])).astype(complex)
                    b = (rs.randint(-8, 9, tensor + [gout.size]) + 1j * rs.randint(-8, 9, tensor + [gout.size])).astype(complex)
                    tests.append(('forward', np.asarray(ft.forward(h.Field(a, gin))), a @ fwd.T))
                    tests.append(('backward', np.asarray(ft.backward(h.Field(b, gout))), b @ bwd.T))
                    tests.append(('forward again', np.asarray(ft.forward(h.Field(a, gin))), a @ fwd.T))
                tests.append(('matrix_forward', np.asarray(ft.get_transformation_matrix_forward()), fwd))
                tests.append(('matrix_backward', np.asarray(ft.get_transformation_matrix_backward()), bwd))
                for part, got, want in tests:
                    if got.shape != want.shape:
                        bad.append((part, combo, 'shape %s instead of %s' % (got.shape, want.shape)))
                        break
                    scale = max(float(np.max(np.abs(want))), 1e-300)
                    err = float(np.max(np.abs(got - want))) / scale
                    if not err <= PIPE_TOL:
                        bad.append((part, combo, 'differs from the defining weighted sum by %.3g relative' % err))
                        break
            except MachineryError:
                raise
            except Warning as w:
                bad.append(('warns', combo, '%s: %s' % (type(w).__name__, str(w)[:100])))
            except Exception as e:  # noqa
                bad.append(('raises', combo, '%s: %s' % (type(e).__name__, str(e)[:100])))
    return bad


def run_weighted_sweep(ctx, default):
    rng = ctx.rng
    thorough = ctx.tier == 'thorough'
    for rep in range(ctx.scale(1, 4)):
        for kind in WEIGHTED_KINDS:
            for side in ('in', 'out', 'both'):
                tnames = ['nft', 'make'] + (['mft'] if kind in ('cart_regular_w', 'cart_sep_auto', 'cart_sep_w') else [])
                for tname in tnames:
                    relevant = {'nft': ('nft_pre',), 'mft': ('mft_pre', 'mft_alloc'), 'make': ('nft_pre', 'mft_pre', 'mft_alloc')}[tname]
                    combos = [c for c in reuse_combos(relevant, thorough) if thorough or c['method'] == METHODS[3]]
                    p = {'a': int(rng.integers(2, 6)), 'b': int(rng.integers(2, 6)), 'q': int(rng.integers(1, 3)), 'nairy': int(rng.integers(1, 3)),
                         'seed': int(rng.integers(0, 10000))}
                    bad = check_weighted(kind, side, tname, p, combos)
                    ctx.count('weighted:%s:%s' % (kind, tname))
                    ctx.count('weighted-configurations', len(combos))
                    ctx.case(None, nontrivial_key=('weighted', kind, side, tname, tuple(sorted(p.items()))))
                    if bad:
                        part, combo, what = bad[0]
                        flipped = sorted(k for k in combo if combo[k] != default.get(k))
                        ctx.violation('weighted %s %s %s %s %s' % (tname, kind, side, part, '+'.join(flipped) or 'default'),
                                      '%s on a %s grid (%s side): %s %s; configuration %s (%d of %d configurations fail)' % (
                                          tname, kind, side, part, what, ', '.join('%s=%r' % kv for kv in sorted(combo.items())), len(bad), len(combos)),
                                      {'weighted': kind, 'side': side, 'transform': tname, 'params': p, 'combo': combo})


# ---------------------------------------------------------------------------------------------
# the property evaluated on the observations (independent of the Lean model)

INPLACE_STMTS = ('iop', 'setix', 'setmask', 'xstmt', 'iopix', 'iopmask', 'out', 'setreal', 'setimag', 'sortip', 'fill')


def stmt_sig(s):
    t = s[0]
    if t == 'assign':
        e = s[2]
        return 'x=%s' % ('.'.join(str(p) for p in e[:2]) if e[0] in ('bin', 'un', 'red', 'idx', 'ext', 'app1', 'app2', 'app3') else e[0])
    if t == 'iop':
        return 'x %s= e' % {'add': '+', 'sub': '-', 'mul': '*', 'div': '/'}[s[2]]
    if t == 'setix':
        return 'x[%s]=e' % s[2]
    if t == 'setmask':
        return 'x[mask]=e'
    if t == 'xstmt':
        return 'inplace.%s' % s[2]
    if t == 'iopix':
        return 'x[%s] %s= e' % (s[3], {'add': '+', 'sub': '-', 'mul': '*', 'div': '/'}[s[2]])
    if t == 'iopmask':
        return 'x[mask] %s= e' % {'add': '+', 'sub': '-', 'mul': '*', 'div': '/'}[s[2]]
    if t == 'out':
        return 'np.%s(a,b,out=x)' % s[2]
    if t in ('setreal', 'setimag', 'sortip', 'fill'):
        return {'setreal': 'x.real=e', 'setimag': 'x.imag=e', 'sortip': 'x.sort()', 'fill': 'x.fill(e)'}[t]
    return t


def oracle(prog, plain, old, new, mixed=None):
    """list of (key, what)"""
    bad = []
    if mixed is None:
        mixed = run_program(prog, 'mixed')
    for mode, run in (('old', old), ('new', new)) + ((('mixed', mixed),) if mixed else ()):
        for key, what in run[2]:
            bad.append((key, what))
    if mixed:
        bad += mixed_oracle(prog, plain, mixed, old, new)
    ptrace, otrace, ntrace = plain[0], old[0], new[0]
    tainted = set()        # a style whose values already went wrong: later differences are consequences
    div = shaped_divergence(old, new)
    for i, s in enumerate(prog['stmts']):
        sig = stmt_sig(s)
        if i >= len(ptrace):
            break
        p = ptrace[i]
        o = otrace[i] if i < len(otrace) else None
        n = ntrace[i] if i < len(ntrace) else None
        if o is None or n is None:
            break
        stop = False
        pairs = (('old', o, n), ('new', n, o))
        if div is not None and div[0] == i:
            # accepted divergence: `.shaped` of something that is a Field under one style only (0-d results are
            # scalars under the wrapper, np.where drops the subclass).  Exactly this is accepted: the style in
            # which the operand is no Field raises AttributeError; the other style is held to the reference.
            pairs = []
            for mode, r, other, kinds in (('old', o, n, div[1]), ('new', n, o, div[2])):
                if all(k[0] == 'f' for k in kinds):
                    pairs.append((mode, r, other))
                elif not (r[0] == 'E' and r[1] == 'attr'):
                    bad.append(('shaped-of-non-field %s %s' % (mode, sig), '%s: .shaped of a %s does not raise AttributeError with %s-style fields but gives %s' % (
                        sig, [k for k in kinds if k[0] != 'f'][0], mode, short(r[1]) if r[0] != 'E' else r[2])))
            stop = True
        if s[0] == 'assign' and s[2][0] == 'ext' and EXT[s[2][1]].get('fieldonly'):
            p = o                       # field-only library function: the styles are compared with each other
            pairs = (('new', n, o),)
        for mode, r, other in pairs:
            if mode in tainted:
                continue
            if p[0] == 'E':
                if r[0] != 'E':
                    bad.append(('no-error %s %s' % (mode, sig), '%s raises %s on the reference (plain arrays) but not with %s-style fields' % (sig, p[1], mode)))
                elif r[1] != p[1] and p is not o:     # invalid calls of field-only functions: both must raise, the class is not compared
                    bad.append(('error-class %s %s' % (mode, sig), '%s raises %s on the reference (plain arrays) but %s with %s-style fields' % (sig, p[2], r[2], mode)))
                stop = True
            elif r[0] == 'E':
                only = other[0] != 'E'
                bad.append(('raises %s %s %s' % (mode + ('-only' if only else ''), sig, r[1]),
                            '%s works on plain arrays%s but raises %s with %s-style fields' % (sig, ' and with the other field style' if only else '', r[2], mode)))
                stop = True
            elif not same_obs_values(r[1], p[1]):
                bad.append(('values %s %s' % (mode, sig), '%s gives %s with %s-style fields, the plain-array reference gives %s' % (sig, short(r[1]), mode, short(p[1]))))
                tainted.add(mode)
        if stop:
            break
    if plain[1] is not None:
        for mode, run in (('old', old), ('new', new)):
            if run[1] is None or mode in tainted:
                continue
            for x in prog['final'] + prog.get('final_views', []):
                a, b = run[1].get(x), plain[1].get(x)
                if a is None or b is None:
                    continue
                if not same_obs_values(a, b):
                    last = [stmt_sig(s) for s in prog['stmts'] if s[0] in INPLACE_STMTS]
                    if x in prog.get('final_views', []):
                        bad.append(('view-read %s %s' % (mode, last[-1] if last else '-'),
                                    'variable %d, derived from a variable that was updated in place afterwards, holds %s at the end with %s-style fields, %s on plain arrays (a view that copies, or a copy that aliases)' % (
                                        x, short(a), mode, short(b))))
                        break
                    bad.append(('final-read %s %s' % (mode, last[-1] if last else '-'),
                                'variable %d read at the end holds %s with %s-style fields, the plain-array reference holds %s (stale alias or lost write)' % (x, short(a), mode, short(b))))
                    break
    return bad


def mixed_oracle(prog, plain, mixed, old, new):
    """the run in which the configured Field style is switched between statements, against the plain-array reference:
    same values, shapes, dtype classes and exception classes at every statement and in the final read-out"""
    bad = []
    flips = mixed_flips(prog)
    for i, s in enumerate(prog['stmts']):
        if i >= len(plain[0]) or i >= len(mixed[0]):
            break
        sig = stmt_sig(s)
        p, r = plain[0][i], mixed[0][i]
        if any(k[0] != 'f' for k in mixed[3][i]) or not (i < len(old[3]) and i < len(new[3]) and mixed[3][i] == old[3][i] == new[3][i]):
            # `.shaped` of something that is not the same kind of object (a Field on the same grid) under old-style, new-style
            # and this mixture of styles: the accepted divergence of `oracle` (0-d results, np.where - whose result takes the
            # grid of the leftmost *new-style* argument in a mixture)
            return bad
        if s[0] == 'assign' and s[2][0] == 'ext' and EXT[s[2][1]].get('fieldonly'):
            if r[0] == 'E' and p[0] != 'E' or p[0] is None:
                return bad      # field-only library functions have no plain reference
            continue
        cfg = 'configured style %s, previous statement %s' % ('new' if flips[i] else 'old', ('new' if flips[i - 1] else 'old') if i else '-')
        if p[0] == 'E':
            if r[0] != 'E':
                bad.append(('no-error mixed %s' % sig, '%s raises %s on plain arrays but not when the Field style is switched between statements (%s)' % (sig, p[1], cfg)))
            elif r[1] != p[1]:
                bad.append(('error-class mixed %s' % sig, '%s raises %s on plain arrays but %s when the Field style is switched between statements (%s)' % (sig, p[2], r[2], cfg)))
            return bad
        if r[0] == 'E':
            bad.append(('raises mixed %s %s' % (sig, r[1]), '%s works on plain arrays and with either Field style alone, but raises %s when the Field style is switched between statements (%s)' % (sig, r[2], cfg)))
            return bad
        if not same_obs_values(r[1], p[1]):
            bad.append(('values mixed %s' % sig, '%s gives %s when the Field style is switched between statements (%s), the plain-array reference gives %s' % (sig, short(r[1]), cfg, short(p[1]))))
            return bad
    if plain[1] is not None and mixed[1] is not None:
        for x in prog['final'] + prog.get('final_views', []):
            a, b = mixed[1].get(x), plain[1].get(x)
            if a is not None and b is not None and not same_obs_values(a, b):
                bad.append(('final-read mixed', 'variable %d read at the end holds %s when the Field style is switched between statements, the plain-array reference holds %s' % (x, short(a), short(b))))
                break
    return bad


def shrink(prog, fails):
    """drop statements while the same key keeps failing"""
    key = fails[0][0]
    def still(p):
        try:
            return any(k == key for k, _ in oracle(p, run_program(p, 'plain'), run_program(p, 'old'), run_program(p, 'new')))
        except Exception:
            return False
    cur = prog
    changed = True
    while changed:
        changed = False
        for i in range(len(cur['stmts']) - 1, -1, -1):
            cand = dict(cur)
            cand['stmts'] = cur['stmts'][:i] + cur['stmts'][i + 1:]
            used = set()
            def vars_of(e):
                if isinstance(e, list):
                    if len(e) == 2 and e[0] == 'var':
                        used.add(e[1])
                    for y in e:
                        vars_of(y)
            defined = set()
            ok = True
            for s in cand['stmts']:
                used.clear()
                vars_of(s[2:])
                need = set(used)
                if s[0] in INPLACE_STMTS:
                    need.add(s[1])
                if s[0] == 'alias':
                    need = {s[2]}
                if not need <= defined:
                    ok = False
                    break
                if s[0] in ('assign', 'alias'):
                    defined.add(s[1])
            if not ok:
                continue
            cand['final'] = [x for x in cur['final'] if x in defined]
            cand['final_views'] = [x for x in cur.get('final_views', []) if x in defined]
            if still(cand):
                cur = cand
                changed = True
    return cur


def correspondence(ctx, prog, old, new, answer):
    """real old-style run vs the model's subclass route, real new-style run vs the wrapper route"""
    ans = parse_model_answer(answer)
    # `agree?` (hypothesis of backends_same_values) against where the real styles first hand different kinds of
    # object to `.shaped`; the model also inspects `.shaped` nodes that a raising statement never reaches
    div = shaped_divergence(old, new)
    real_at = None if div is None else div[0]
    ctx.traces_validated += 1
    if ans['A'] != real_at:
        i = ans['A']
        raised = i is not None and real_at is None and any(i < len(r[0]) and r[0][i][0] == 'E' for r in (old, new))
        if raised:
            ctx.count('agree:model-0-node-unreached')
        else:
            ctx.disagree('C19 agree? vs real .shaped operands', {'prog': prog, 'model_first_disagreeing_stmt': ans['A'], 'impl_first_disagreeing_stmt': real_at,
                                                                'impl_kinds': None if div is None else [div[1], div[2]]})
    ctx.count('agree:%s' % ('1' if ans['A'] is None else '0'))
    for mode, run, tkey, dkey in (('old', old, 'O', 'DO'), ('new', new, 'N', 'DN')):
        mtrace = ans[tkey] or []
        rtrace = run[0]
        ctx.traces_validated += 1
        if len(mtrace) != len(rtrace):
            ctx.disagree('C19 %s trace length' % mode, {'prog': prog, 'impl': len(rtrace), 'model': len(mtrace)})
            continue
        diff = None
        for i, (m, r) in enumerate(zip(mtrace, rtrace)):
            if r[0] == 'E' or m[0] == 'E':
                if not (r[0] == 'E' and m[0] == 'E' and r[1] == m[1]):
                    diff = (i, 'impl %s, model %s' % (r[:2] if r[0] == 'E' else 'ok', m))
                break
            mo, ro = m[1], r[1]
            if 'vals' not in ro:
                diff = (i, 'impl produced %s' % (ro,))
                break
            if mo['tag'] != ro['tag'] or not same_values(ro, mo):
                diff = (i, 'impl %s, model %s' % (short(ro), short(mo)))
                break
        if diff is None and run[1] is not None and ans[dkey] is not None:
            md = dict(ans[dkey])
            for x in prog['final']:
                mo, ro = md.get(x), run[1].get(x)
                if mo is None or ro is None or 'vals' not in ro or 'vals' not in mo or mo['tag'] != ro['tag'] or not same_values(ro, mo):
                    diff = ('final', 'variable %d: impl %s, model %s' % (x, short(ro) if ro else None, short(mo) if mo else None))
                    break
        if diff is not None:
            ctx.disagree('C19 %s-style vs %s route' % (mode, 'subclass' if mode == 'old' else 'wrapper'),
                         {'prog': prog, 'at': diff[0], 'stmt': stmt_sig(prog['stmts'][diff[0]]) if isinstance(diff[0], int) else 'final', 'detail': diff[1]})


# ---------------------------------------------------------------------------------------------
# Fourier half, tied to Model/FourierSwitch.lean: backend selection (`_make_func`) over recording fake
# backends, and the cache state of reused MFT / NFT objects

SEL_FUNCS = {   # name -> (needs real input, 2-d)
    'fft': (False, False), 'ifft': (False, False), 'fft2': (False, True), 'ifft2': (False, True), 'fftn': (False, True),
    'ifftn': (False, True), 'rfft': (True, False), 'irfft': (False, False), 'rfft2': (True, True), 'irfft2': (False, True),
    'rfftn': (True, True), 'irfftn': (False, True), 'hfft': (False, False), 'ihfft': (True, False),
}
SEL_DTYPES = {   # dtype -> (model class, real?)
    'float16': ('half', True), 'float32': ('single', True), 'float64': ('double', True), 'longdouble': ('longdouble', True),
    'complex64': ('single', False), 'complex128': ('double', False), 'clongdouble': ('longdouble', False),
    'int64': ('integer', True), 'bool': ('integer', True), 'int16': ('integer', True),
}
SEL_PREC = {'float32': 'single', 'complex64': 'single', 'float64': 'double', 'complex128': 'double',
            'float128': 'longdouble', 'complex256': 'longdouble'}
SEL_NAMES = ['mkl', 'fftw', 'scipy', 'numpy']


def gen_select_case(rng, directed=None):
    if directed is not None:
        return directed
    names = SEL_NAMES + ['bogus']
    nm = int(rng.choice([0, 1, 2, 2, 3, 3, 4, 5]))
    use_method_arg = bool(rng.random() < 0.2)
    methods = [str(rng.choice(names, p=[0.2, 0.2, 0.25, 0.25, 0.1])) for _ in range(1 if use_method_arg else nm)]
    cpu = int(rng.choice([1, 2, 4, 16]))
    threads = None if rng.random() < 0.55 else int(rng.choice([1, 2, 3, cpu]))
    big = bool(rng.random() < 0.12)
    func = str(rng.choice(sorted(SEL_FUNCS)))
    need_real, _ = SEL_FUNCS[func]
    dts = [d for d in SEL_DTYPES if SEL_DTYPES[d][1] or not need_real]
    w = np.array([6.0 if d in ('float32', 'float64', 'complex64', 'complex128') else 1.0 for d in dts])
    dtype = str(rng.choice(dts, p=w / w.sum()))
    if big:
        dtype = str(rng.choice(['complex64', 'float32'] if not need_real else ['float32']))
    fails = []
    attempts = sorted(set([cpu, 1] + ([threads] if threads is not None else [])))
    for m in SEL_NAMES:
        r = rng.random()
        if r < 0.15:
            fails += [[m, t] for t in attempts]            # raises whatever the number of workers
        elif r < 0.45 and m in ('fftw', 'scipy'):
            fails.append([m, int(rng.choice(attempts))])   # raises for one number of workers only
    return {'func': func, 'dtype': dtype, 'methods': methods, 'method_arg': use_method_arg, 'cpu': cpu, 'threads': threads, 'big': big,
            'mkl': bool(rng.random() < 0.5), 'fftw': bool(rng.random() < 0.5), 'fails': fails}


SELECT_DIRECTED = [
    # the audit's side finding: an explicit threads= (UnboundLocalError before D190)
    {'func': 'fft', 'dtype': 'float64', 'methods': ['scipy'], 'method_arg': False, 'cpu': 4, 'threads': 1, 'big': False, 'mkl': False, 'fftw': False, 'fails': []},
    {'func': 'fft2', 'dtype': 'complex64', 'methods': ['fftw', 'numpy'], 'method_arg': False, 'cpu': 4, 'threads': 3, 'big': False, 'mkl': False, 'fftw': True, 'fails': [['fftw', 3]]},
    # big input: the multithreaded attempt fails for every backend, the single-threaded one works
    {'func': 'fft2', 'dtype': 'complex64', 'methods': ['fftw', 'scipy'], 'method_arg': False, 'cpu': 16, 'threads': None, 'big': True, 'mkl': False, 'fftw': True,
     'fails': [['fftw', 16], ['scipy', 16]]},
    # nothing works: ValueError after both thread attempts
    {'func': 'ifft', 'dtype': 'complex128', 'methods': ['mkl', 'scipy', 'numpy'], 'method_arg': False, 'cpu': 2, 'threads': None, 'big': True, 'mkl': True, 'fftw': False,
     'fails': [['mkl', 1], ['mkl', 2], ['scipy', 1], ['scipy', 2], ['numpy', 1], ['numpy', 2]]},
    # unavailable modules and unknown names are skipped silently; empty list
    {'func': 'rfft', 'dtype': 'float32', 'methods': ['mkl', 'bogus', 'fftw', 'numpy'], 'method_arg': False, 'cpu': 4, 'threads': None, 'big': False, 'mkl': False, 'fftw': False, 'fails': []},
    {'func': 'fft', 'dtype': 'float64', 'methods': [], 'method_arg': False, 'cpu': 4, 'threads': None, 'big': False, 'mkl': True, 'fftw': True, 'fails': []},
    # the numpy branch casts: non-standard depths differ from the other backends (accepted divergence)
    {'func': 'fft', 'dtype': 'float16', 'methods': ['numpy'], 'method_arg': True, 'cpu': 4, 'threads': None, 'big': False, 'mkl': False, 'fftw': False, 'fails': []},
    {'func': 'irfft', 'dtype': 'clongdouble', 'methods': ['scipy', 'numpy'], 'method_arg': False, 'cpu': 4, 'threads': None, 'big': False, 'mkl': False, 'fftw': False, 'fails': [['scipy', 1], ['scipy', 4]]},
]


def _select_input(case):
    _, two_d = SEL_FUNCS[case['func']]
    n = 65536 if case['big'] else 16
    k = np.arange(n, dtype=float)
    base = ((k * 7) % 11 - 5.0) / 4.0
    dt = np.dtype(case['dtype'])
    if dt.kind == 'c':
        x = (base + 1j * (((k * 3) % 5) - 2.0) / 2.0).astype(dt)
    elif dt.kind == 'b':
        x = (base > 0)
    else:
        x = base.astype(dt)
    return x.reshape((256, 256) if case['big'] else (4, 4)) if two_d else x


def run_select_real(case):
    """call the real `_make_func` closure, re-made over recording fake backends; returns the observation"""
    import types
    import scipy.fft as _sfft
    from hcipy._math import fft as F
    func_name = case['func']
    log, anomalies = [], []
    fails = set((m, t) for m, t in case['fails'])
    all_t = sorted(set([case['cpu'], 1] + ([case['threads']] if case['threads'] is not None else [])))

    def backend(name, real, takes_workers):
        def fake(x, *args, **kw):
            w = kw.pop('workers', None)
            kw.pop('overwrite_x', None)
            if (w is not None) != takes_workers:
                anomalies.append('backend %s called with workers=%r' % (name, w))
            log.append((name, w))
            bad = ((name, w) in fails) if takes_workers else all((name, t) in fails for t in all_t)
            if bad:
                raise RuntimeError('injected failure of %s' % name)
            return real(x, *args, **kw)
        fake.__name__ = func_name
        return fake

    sreal = getattr(_sfft, func_name)
    nreal = getattr(np.fft, func_name)
    saved = {k: getattr(F, k) for k in ('mkl_fft', 'pyfftw', 'scipy', 'np', '_CPU_COUNT')}
    x = _select_input(case)
    x0 = x.copy()
    obs = {}
    try:
        F.mkl_fft = types.SimpleNamespace(**{func_name: backend('mkl', sreal, False)}) if case['mkl'] else None
        F.pyfftw = types.SimpleNamespace(interfaces=types.SimpleNamespace(scipy_fft=types.SimpleNamespace(**{func_name: backend('fftw', sreal, True)}))) if case['fftw'] else None
        F.scipy = types.SimpleNamespace(fft=types.SimpleNamespace(**{func_name: backend('scipy', sreal, True)}))
        F.np = types.SimpleNamespace(fft=types.SimpleNamespace(**{func_name: backend('numpy', nreal, False)}))
        F._CPU_COUNT = case['cpu']
        func = F._make_func(func_name)
        kw = {}
        if case['threads'] is not None:
            kw['threads'] = case['threads']
        with warnings.catch_warnings(record=True) as wlist:
            warnings.simplefilter('always')
            try:
                if case['method_arg']:
                    res = func(x, method=case['methods'][0], **kw)
                else:
                    with config(method=case['methods']):
                        res = func(x, **kw)
                obs['dtype'] = str(res.dtype)
                obs['res'] = res
            except Exception as e:  # noqa
                obs['error'] = type(e).__name__
                obs['msg'] = str(e)[:120]
        obs['warns'] = len([w for w in wlist if 'FFT method' in str(w.message) or 'raised an exception' in str(w.message)])
        obs['rounds'] = len([w for w in wlist if 'could be found using' in str(w.message)])
    finally:
        for k, v in saved.items():
            setattr(F, k, v)
    obs['calls'] = list(log)
    obs['anomalies'] = anomalies
    obs['intact'] = bool(np.array_equal(x, x0))
    obs['ref'] = sreal(x0)
    # `DtIn.standard` (hypothesis of select_value_independent): on the unpatched module, does the numpy branch hand out
    # the bit depth the other backends hand out?
    with warnings.catch_warnings():
        warnings.simplefilter('ignore')
        obs['std'] = str(getattr(F, func_name)(x0.copy(), method='numpy').dtype) == str(getattr(F, func_name)(x0.copy(), method='scipy').dtype)
    return obs


def select_line(case):
    toks = ['C19', 'select', str(case['cpu']), '1' if case['mkl'] else '0', '1' if case['fftw'] else '0',
            ','.join(case['methods']) if case['methods'] else '-', '-' if case['threads'] is None else str(case['threads']),
            '1' if case['big'] else '0', SEL_DTYPES[case['dtype']][0]]
    toks += ['%s.%d' % (m, t) for m, t in case['fails']]
    return ' '.join(toks)


def select_oracle(case, obs):
    """the property on the real observation (no model): list of (key, what)"""
    bad = []
    usable = {'mkl': case['mkl'], 'fftw': case['fftw'], 'scipy': True, 'numpy': True}
    fails = set((m, t) for m, t in case['fails'])
    attempts = [case['threads']] if case['threads'] is not None else ([case['cpu'], 1] if case['big'] else [1])
    some_works = any(usable.get(m, False) and (m, t) not in fails for t in attempts for m in case['methods'])
    tag = 'threads=%s' % ('None' if case['threads'] is None else 'n')
    if obs['anomalies']:
        return [('select workers-argument', '%s: %s' % (case['func'], obs['anomalies'][0]))]
    for name, w in obs['calls']:
        if w is not None and w not in attempts:
            return [('select workers-argument', '%s(x, threads=%r): backend %s called with workers=%r, not one of the attempts %r' % (case['func'], case['threads'], name, w, attempts))]
    if 'error' in obs:
        if obs['error'] != 'ValueError' or 'No suitable' not in obs['msg']:
            bad.append(('select raises %s %s' % (obs['error'], tag),
                        'hcipy._math.fft.%s(x, threads=%r) with methods %r raises %s: %s' % (case['func'], case['threads'], case['methods'], obs['error'], obs['msg'])))
        elif some_works:
            bad.append(('select gives-up %s' % tag, '%s raises ValueError although a listed backend works: methods %r, failing %r' % (case['func'], case['methods'], case['fails'])))
        return bad
    if not some_works:
        bad.append(('select returns-without-backend', '%s returned a result although no listed backend works' % case['func']))
        return bad
    if not obs['intact']:
        bad.append(('select input-modified', '%s modified its input' % case['func']))
    ref, res = obs['ref'], obs['res']
    standard = SEL_DTYPES[case['dtype']][0] in ('single', 'double', 'integer')
    if standard and str(res.dtype) != str(ref.dtype):
        bad.append(('select dtype %s' % obs['calls'][-1][0], '%s on %s input returns %s through backend %s, %s through the reference backend' % (
            case['func'], case['dtype'], res.dtype, obs['calls'][-1][0], ref.dtype)))
    tol = 2e-3 if case['dtype'] == 'float16' else (5e-5 if min(res.dtype.itemsize, ref.dtype.itemsize) <= 8 and res.dtype.kind == 'c' or res.dtype.itemsize <= 4 else 1e-10)
    scale = max(float(np.max(np.abs(ref))), 1e-300)
    if res.shape != ref.shape or not float(np.max(np.abs(res.astype(np.complex128) - ref.astype(np.complex128)))) <= tol * scale:
        bad.append(('select values %s' % obs['calls'][-1][0], '%s through backend %s differs from the reference backend' % (case['func'], obs['calls'][-1][0])))
    return bad


def check_select(ctx, case, answer=None):
    obs = run_select_real(case)
    bad = select_oracle(case, obs)
    if ctx is not None:
        ctx.count('select:threads=%s' % ('None' if case['threads'] is None else 'explicit'))
        ctx.count('select:big' if case['big'] else 'select:small')
        ctx.count('select:outcome=%s' % (obs.get('error') or (obs['calls'][-1][0] if obs['calls'] else '?')))
        ctx.count('select:calls=%d' % len(obs['calls']))
        ctx.count('select:dtype=%s' % SEL_DTYPES[case['dtype']][0])
        if 'res' in obs and SEL_DTYPES[case['dtype']][0] in ('half', 'longdouble') and str(obs['res'].dtype) != str(obs['ref'].dtype):
            ctx.count('accepted-divergence:fft-bit-depth-%s-through-numpy' % SEL_DTYPES[case['dtype']][0])
    return obs, bad


def select_correspondence(ctx, case, obs, answer):
    ctx.traces_validated += 1
    if not answer.startswith('ok '):
        ctx.disagree('C19 select', {'case': case, 'model': answer})
        return
    m = dict(t.split('=', 1) for t in answer.split()[1:])
    if 'error' in obs:
        sel = 'E:value' if obs['error'] == 'ValueError' else 'E:' + obs['error']
        prec, workers = '-', '-'
    else:
        last = obs['calls'][-1] if obs['calls'] else ('?', None)
        # the thread attempt of the successful call: one "no method with n threads" warning per exhausted attempt
        attempts = [case['threads']] if case['threads'] is not None else ([case['cpu'], 1] if case['big'] else [1])
        sel = last[0] + '.' + (str(attempts[obs['rounds']]) if obs['rounds'] < len(attempts) else '?')
        prec = SEL_PREC.get(obs['dtype'], obs['dtype'])
        workers = '-' if last[1] is None else str(last[1])
    # calls: the fakes of mkl/numpy do not see the number of threads; compare names, and workers where passed
    mcalls = [] if m['calls'] == '-' else [c.split('.') for c in m['calls'].split(',')]
    rcalls = obs['calls']
    same_calls = len(mcalls) == len(rcalls) and all(mc[0] == rc[0] and (rc[1] is None or int(mc[1]) == rc[1]) for mc, rc in zip(mcalls, rcalls))
    std = '1' if obs['std'] else '0'
    if sel != m['sel'] or not same_calls or int(m['warns']) != obs['warns'] or prec != m['prec'] or workers != m['workers'] or std != m['std']:
        ctx.disagree('C19 select vs _make_func', {'case': case, 'model': answer,
                                                'impl': {'sel': sel, 'calls': rcalls, 'warns': obs['warns'], 'prec': prec, 'workers': workers, 'std': std}})


def run_select_tie(ctx):
    rng = ctx.rng
    cases = list(SELECT_DIRECTED) + [gen_select_case(rng) for _ in range(ctx.scale(400, 6000))]
    lines, done = [], []
    for case in cases:
        obs, bad = check_select(ctx, case)
        ctx.case(None, nontrivial_key=('select', case['func'], tuple(case['methods']), case['threads'], case['big'], len(case['fails'])) if case['methods'] else None)
        for key, what in bad[:1]:
            ctx.violation(key, what, {'select': case})
        lines.append(select_line(case))
        done.append((case, obs))
    out = ctx.model(lines)
    for (case, obs), ans in zip(done, out):
        select_correspondence(ctx, case, obs, ans)
    # the unpatched backends on one input above the 256x256 threshold (two thread attempts in the real code)
    from hcipy._math import fft as F
    x = _select_input({'func': 'fft2', 'big': True, 'dtype': 'complex64'})
    ref = None
    for meth in METHODS:
        with config(method=meth), warnings.catch_warnings():
            warnings.simplefilter('error')
            r = F.fft2(x)
        ctx.count('select:real-big')
        if ref is None:
            ref = r
        elif r.dtype != ref.dtype or not np.max(np.abs(r - ref)) <= 2e-4 * np.max(np.abs(ref)):
            ctx.violation('select real-big %s' % '+'.join(meth), 'fft2 of a 256x256 complex64 array differs between method lists %r and %r' % (METHODS[0], meth),
                          {'select_real_big': meth})


# --- cache state of reused MFT / NFT objects -----------------------------------------------------

def gen_cache_script(rng, n):
    return [[str(rng.choice(['f', 'b'])), int(rng.choice([64, 128]))] for _ in range(n)]


CACHE_DIRECTED = [[['f', 64], ['f', 128], ['b', 128], ['b', 64]], [['b', 128], ['b', 128], ['f', 64], ['f', 64], ['b', 128]]]


def _cache_grids(params):
    import hcipy
    n, m = params['n'], params['m']
    pupil = hcipy.make_pupil_grid([n, n + params['odd']], [1.0, 1.5])
    focal = hcipy.CartesianGrid(hcipy.SeparatedCoords([np.linspace(-3, 3, m) * (1 + 0.1 * np.arange(m) / m), np.linspace(-2, 2, m + 1)]))
    return pupil, focal


def run_cache_real(kind, params, pre, alloc, via_config, new_style, script):
    """one real object reused over the script; per call: (state string, relative error vs fresh object, dtype ok)"""
    import hcipy
    rows = []
    with config(new_style=new_style):
        pupil, focal = _cache_grids(params)
        def make(pre_, alloc_):
            if kind == 'mft':
                return hcipy.MatrixFourierTransform(pupil, focal, precompute_matrices=pre_, allocate_intermediate=alloc_)
            return hcipy.NaiveFourierTransform(pupil, focal, precompute_matrices=pre_)
        if via_config:
            # the *other* transform's switch is set the opposite way: reading the wrong key shows
            with config(**({'mft_pre': pre, 'mft_alloc': alloc, 'nft_pre': not pre} if kind == 'mft' else {'nft_pre': pre, 'mft_pre': not pre, 'mft_alloc': not pre})):
                obj = make(None, None)
        else:
            obj = make(pre, alloc)
        for i, (d, p) in enumerate(script):
            grid = pupil if d == 'f' else focal
            k = np.arange(grid.size, dtype=float)
            vals = (((k * 5 + i) % 7) - 3.0) / 4.0 + 1j * ((((k + 2 * i) * 3) % 5) - 2.0) / 8.0
            cdt = 'complex64' if p == 64 else 'complex128'
            fld = hcipy.Field(vals.astype(cdt), grid)
            fresh = make(False, False)
            with warnings.catch_warnings():
                warnings.simplefilter('error')
                f = (fresh.forward if d == 'f' else fresh.backward)(fld.copy())
                try:
                    r = (obj.forward if d == 'f' else obj.backward)(fld)
                except Exception as e:  # noqa
                    rows.append({'raises': '%s: %s' % (type(e).__name__, str(e)[:100]), 'state': 'raised', 'err': float('inf')})
                    break
            ra, fa = np.asarray(r), np.asarray(f)
            err = float(np.max(np.abs(ra - fa))) / max(float(np.max(np.abs(fa))), 1e-300)
            key = lambda dt: '-' if dt is None else {'complex64': '64', 'complex128': '128'}.get(str(np.dtype(dt)), str(dt))
            if kind == 'mft':
                # k: the recorded dtype describes the matrices (the model's `keyedB`, invariant of mft_call_independent)
                keyed = (obj.M1 is None and obj.M2 is None) if obj.matrices_dtype is None else (
                    obj.M1 is not None and obj.M2 is not None and str(obj.M1.dtype) == str(np.dtype(obj.matrices_dtype)) == str(obj.M2.dtype))
                state = 'm%si%sk%d' % (key(obj.matrices_dtype), key(obj.intermediate_dtype), keyed)
                consistent = ((obj.M1 is None) == (obj.matrices_dtype is None) and (obj.M2 is None) == (obj.M1 is None)
                              and (obj.intermediate_array is None) == (obj.intermediate_dtype is None)
                              and (obj.M1 is None or str(obj.M1.dtype) == str(np.dtype(obj.matrices_dtype)))
                              and (obj.intermediate_array is None or str(obj.intermediate_array.dtype) == str(np.dtype(obj.intermediate_dtype))))
            else:
                state = 'f%db%d' % (obj._matrix_forward is not None, obj._matrix_backward is not None)
                consistent = True
            rows.append({'state': state, 'err': err, 'dtype_ok': str(ra.dtype) == cdt and str(fa.dtype) == cdt, 'consistent': consistent,
                         'grid_ok': is_field(r) and r.grid == (focal if d == 'f' else pupil) and type(r) is type(f)})
    return rows


def check_cache(ctx, kind, params, pre, alloc, via_config, new_style, script):
    rows = run_cache_real(kind, params, pre, alloc, via_config, new_style, script)
    bad = []
    sw = 'pre=%d' % pre + (' alloc=%d' % alloc if kind == 'mft' else '')
    for i, (row, (d, p)) in enumerate(zip(rows, script)):
        tol = 5e-4 if p == 64 else 1e-9
        if 'raises' in row:
            bad.append(('cache %s raises %s' % (kind, sw), 'call %d (%s, complex%d) on the reused %s object (%s) raises %s; a fresh object with the switches off works' % (i, d, p, kind, sw, row['raises'])))
        elif not row['err'] <= tol:
            bad.append(('cache %s values %s' % (kind, sw), 'call %d (%s, complex%d) on the reused %s object (%s) differs by %.3g relative from a fresh object with the switches off' % (
                i, d, p, kind, sw, row['err'])))
        elif not row['dtype_ok'] or not row['grid_ok']:
            bad.append(('cache %s type %s' % (kind, sw), 'call %d (%s, complex%d) on the reused %s object (%s): result dtype / Field type / grid differs from a fresh object' % (i, d, p, kind, sw)))
        elif not row['consistent']:
            bad.append(('cache %s state %s' % (kind, sw), 'after call %d (%s, complex%d) the recorded dtypes of the %s object (%s) do not describe its arrays: %s' % (i, d, p, kind, sw, row['state'])))
    return rows, bad


def run_cache_tie(ctx):
    rng = ctx.rng
    lines, done = [], []
    for kind in ('mft', 'nft'):
        scripts = [list(sc) for sc in CACHE_DIRECTED] + [gen_cache_script(rng, int(rng.integers(3, 9))) for _ in range(ctx.scale(6, 60))]
        for si, script in enumerate(scripts):
            params = {'n': int(rng.choice([4, 5, 6, 8])), 'm': int(rng.choice([3, 5, 6])), 'odd': int(rng.integers(0, 2))}
            for pre, alloc in ([(a, b) for a in (False, True) for b in (False, True)] if kind == 'mft' else [(False, False), (True, False)]):
                via_config = bool((si + pre + alloc) % 2)
                new_style = bool(rng.integers(0, 2))
                rows, bad = check_cache(ctx, kind, params, pre, alloc, via_config, new_style, script)
                ctx.count('cache:%s pre=%d alloc=%d' % (kind, pre, alloc))
                ctx.count('cache-calls', len(script))
                ctx.case(None, nontrivial_key=('cache', kind, pre, alloc, tuple(map(tuple, script))))
                for key, what in bad[:1]:
                    ctx.violation(key, what, {'cache': kind, 'params': params, 'pre': pre, 'alloc': alloc, 'via_config': via_config, 'new_style': new_style, 'script': script})
                toks = ['C19', kind, '1' if pre else '0'] + (['1' if alloc else '0'] if kind == 'mft' else []) + ['%s.%d' % (d, p) for d, p in script]
                lines.append(' '.join(toks))
                done.append((kind, params, pre, alloc, script, rows))
    out = ctx.model(lines)
    for (kind, params, pre, alloc, script, rows), ans in zip(done, out):
        ctx.traces_validated += 1
        impl = ' '.join('%s/%s' % (r['state'], 'fresh' if r['err'] <= (5e-4 if p == 64 else 1e-9) else 'stale') for r, (d, p) in zip(rows, script))
        if ans != 'ok ' + impl:
            ctx.disagree('C19 %s cache vs model' % kind, {'kind': kind, 'params': params, 'pre': pre, 'alloc': alloc, 'script': script, 'impl': impl, 'model': ans})


# ---------------------------------------------------------------------------------------------
# directed corpus (first), then random programs

def _f(g, vals, kind='r', im=None, shape=None):
    return ['field', g, shape or [len(vals)], kind, [float(v) for v in vals], [float(v) for v in (im or [])]]


G4 = [{'dims': [2, 2], 'sep': True}]
DIRECTED = [
    # write-through seen by an alias, both operators and item assignment
    {'grids': G4, 'final': [0, 1], 'stmts': [['assign', 0, _f(0, [1, 2, 3, 4])], ['alias', 1, 0], ['iop', 0, 'add', ['scal', 'r', 1.5, 0.0, 0]],
                                            ['iop', 0, 'mul', _f(0, [2, 2, 0.5, 1])], ['setix', 1, 'atl', [-1], ['scal', 'r', 9.0, 0.0, 0]]]},
    # plain array updated in place with a Field operand
    {'grids': G4, 'final': [0, 1, 2], 'stmts': [['assign', 0, ['lit', [4], 'r', [1.0, 2.0, 3.0, 4.0], []]], ['alias', 1, 0], ['assign', 2, _f(0, [1, 0, 1, 0])],
                                               ['iop', 0, 'sub', ['var', 2]]]},
    # reductions: 0-d Field under the subclass, scalar under the wrapper; the values agree
    {'grids': G4, 'final': [0, 1, 2, 3], 'stmts': [['assign', 0, _f(0, [1, 2, 3, 4, 5, 6, 7, 8], shape=[2, 4])], ['assign', 1, ['red', 'sum', 'all', 0, ['var', 0]]],
                                                  ['assign', 2, ['red', 'mean', 'last', 1, ['var', 0]]], ['assign', 3, ['bin', 'mul', 0, ['var', 1], ['var', 0]]]]},
    # two grids: the leftmost Field operand decides
    {'grids': G4 + [{'dims': [4], 'sep': True}], 'final': [0, 1, 2, 3], 'stmts': [['assign', 0, _f(0, [1, 2, 3, 4])], ['assign', 1, _f(1, [4, 3, 2, 1])],
                                                                               ['assign', 2, ['bin', 'add', 0, ['var', 0], ['var', 1]]], ['assign', 3, ['bin', 'add', 1, ['var', 1], ['var', 0]]]]},
    # complex: conj / real / imag, pickle and copy of a tensor field, shaped
    {'grids': G4, 'final': [0, 1, 2, 3, 4], 'stmts': [['assign', 0, _f(0, list(range(16)), 'c', list(range(16, 0, -1)), [2, 2, 4])], ['assign', 1, ['un', 'conj', 2, ['var', 0]]],
                                                     ['assign', 2, ['pickle', 0, ['var', 1]]], ['assign', 3, ['shaped', ['un', 'im', 1, ['var', 2]], 0]],
                                                     ['assign', 4, ['copy', 3, ['idx', 'at0', [1], ['var', 0]]]]]},
    # boolean-mask read and write
    {'grids': G4, 'final': [0, 1], 'stmts': [['assign', 0, _f(0, [-1, 2, -3, 4])], ['assign', 1, ['mask', ['var', 0], ['bin', 'gt', 0, ['var', 0], ['scal', 'r', 0.0, 0.0, 0]]]],
                                            ['setmask', 0, ['bin', 'lt', 1, ['var', 0], ['scal', 'r', 0.0, 0.0, 0]], ['scal', 'r', 0.0, 0.0, 1]]]},
    # errors must agree: complex into real in place, shape mismatch, index out of range
    {'grids': G4, 'final': [0], 'stmts': [['assign', 0, _f(0, [1, 2, 3, 4])], ['iop', 0, 'add', ['scal', 'c', 1.0, 1.0, 0]]]},
    {'grids': G4, 'final': [0], 'stmts': [['assign', 0, _f(0, [1, 2, 3, 4])], ['assign', 1, ['bin', 'add', 0, ['var', 0], ['lit', [3], 'r', [1.0, 2.0, 3.0], []]]]]},
    {'grids': G4, 'final': [0], 'stmts': [['assign', 0, _f(0, [1, 2, 3, 4])], ['assign', 1, ['idx', 'atl', [4], ['var', 0]]]]},
    {'grids': [{'dims': [4], 'sep': False}], 'final': [0], 'stmts': [['assign', 0, _f(0, [1, 2, 3, 4])], ['assign', 1, ['shaped', ['var', 0], 0]]]},
    # accepted divergence, generated on purpose (model: `agree?` = false at that statement): `.shaped` of something that
    # is a Field under one style only — 0-d result (1-point grid: works / AttributeError; 4 points: ValueError / AttributeError),
    # np.where (AttributeError / works), a product with a 0-d result, and one statement later than the first `.shaped`
    {'grids': [{'dims': [1], 'sep': True}], 'final': [0], 'stmts': [['assign', 0, _f(0, [3])], ['assign', 1, ['shaped', ['red', 'max', 'all', 0, ['var', 0]], 0]]]},
    {'grids': G4, 'final': [0], 'stmts': [['assign', 0, _f(0, [1, 2, 3, 4])], ['assign', 1, ['shaped', ['red', 'sum', 'all', 1, ['var', 0]], 0]]]},
    {'grids': G4, 'final': [0], 'stmts': [['assign', 0, _f(0, [1, -2, 3, -4])],
                                         ['assign', 1, ['shaped', ['app3', 'where', 0, ['bin', 'gt', 0, ['var', 0], ['scal', 'r', 0.0, 0.0, 0]], ['var', 0], ['scal', 'r', 0.5, 0.0, 0]], 0]]]},
    {'grids': G4, 'final': [0, 1, 2], 'stmts': [['assign', 0, _f(0, [1, 2, 3, 4])], ['assign', 1, ['shaped', ['var', 0], 0]],
                                               ['assign', 2, ['bin', 'mul', 0, ['red', 'sum', 'all', 0, ['var', 0]], ['lit', [4], 'r', [1.0, 2.0, 0.5, 1.0], []]]],
                                               ['assign', 3, ['bin', 'add', 0, ['shaped', ['var', 2], 0], ['scal', 'r', 1.0, 0.0, 0]]]]},
    # np.where of scalars is a 0-d *array* (not a scalar) under every style, and stays one through ndarray methods
    {'grids': G4, 'final': [0, 1, 2, 3, 4], 'stmts': [['assign', 0, _f(0, [1, 2, 3, 4])], ['assign', 1, ['app1', 'amin', ['all'], 3, ['var', 0]]],
                                                     ['assign', 2, ['bin', 'ne', 5, ['var', 1], ['scal', 'r', 0.875, 0.0, 1]]],
                                                     ['assign', 3, ['app3', 'where', 1, ['var', 2], ['var', 1], ['var', 1]]],
                                                     ['assign', 4, ['app1', 'as', ['b'], 9, ['var', 3]]]]},
    # the wrapper-specific paths: tuple-valued ufuncs, where=, in-place methods, conversions
    {'grids': G4, 'final': [0], 'stmts': [['assign', 0, _f(0, [1.5, -2, 3, 4])], ['assign', 1, ['ext', 'divmod', [['var', 0], ['var', 0]]]]]},
    {'grids': G4, 'final': [0], 'stmts': [['assign', 0, _f(0, [1.5, -2, 3, 4])], ['assign', 1, ['ext', 'add_where_outfield', [['var', 0], ['var', 0]]]]]},
    {'grids': G4, 'final': [0], 'stmts': [['assign', 0, _f(0, [1.5, -2, 3, 4])], ['assign', 1, ['ext', 'mean_where', [['var', 0]]]]]},
    {'grids': G4, 'final': [0, 1], 'stmts': [['assign', 0, _f(0, [4, -2, 3, 1])], ['alias', 1, 0], ['xstmt', 0, 'sort', []]]},
    {'grids': G4, 'final': [0, 1], 'stmts': [['assign', 0, _f(0, [4, -2, 3, 1], 'c', [1, 1, 1, 1])], ['alias', 1, 0], ['xstmt', 0, 'set_imag', [['scal', 'r', 2.0, 0.0, 0]]]]},
    {'grids': G4, 'final': [0, 1], 'stmts': [['assign', 0, _f(0, [4, -2, 3, 1])], ['alias', 1, 0], ['xstmt', 0, 'fill', [['scal', 'r', 2.0, 0.0, 0]]]]},
    {'grids': G4, 'final': [0], 'stmts': [['assign', 0, _f(0, [0, -2, 3, 1])], ['assign', 1, ['ext', 'bool1', [['var', 0]]]]]},
    {'grids': G4, 'final': [0], 'stmts': [['assign', 0, _f(0, [0, -2, 3, 1])], ['assign', 1, ['ext', 'reshape_args', [['var', 0]]]]]},
    {'grids': G4, 'final': [0], 'stmts': [['assign', 0, _f(0, [0, -2, 3, 1])], ['assign', 1, ['ext', 'float0d', [['var', 0]]]]]},
]


def _shared_buffer_corpus():
    """`h = x; x += 1` leaves two wrapper objects on one buffer under new-style fields; every in-place
    statement applied to either of them must be seen through the other"""
    one = ['scal', 'r', 1.5, 0.0, 0]
    m = ['bin', 'gt', 0, ['var', 2], ['scal', 'r', 0.0, 0.0, 0]]
    kinds = [
        lambda t: ['sortip', t], lambda t: ['fill', t, one], lambda t: ['setreal', t, ['scal', 'r', -2.0, 0.0, 0]],
        lambda t: ['setimag', t, ['var', 2]], lambda t: ['iopix', t, 'mul', 'psl', [None, None, -2], one],
        lambda t: ['iopix', t, 'add', 'tk', [[0, -1, 0]], one], lambda t: ['iopmask', t, 'sub', m, one],
        lambda t: ['out', t, 'add', ['var', t], ['var', 2]], lambda t: ['out', t, 'max', ['var', 2], ['un', 're', 0, ['var', t]]],
        lambda t: ['setix', t, 'tk', [[1, -1]], one], lambda t: ['setix', t, 'psl', [-1, None, -1], ['var', 2]], lambda t: ['setmask', t, m, one],
        lambda t: ['iop', t, 'mul', ['var', 2]],
    ]
    progs = []
    for k, mk in enumerate(kinds):
        for target in (0, 1):
            cplx = k in (3,)
            f0 = _f(0, [4, -2, 3, 1, 0.5], 'c' if cplx else 'r', [1, 1, 2, 2, 3] if cplx else None)
            if k == 8 and False:
                continue
            stmts = [['assign', 0, f0], ['alias', 1, 0], ['assign', 2, _f(0, [1, -1, 2, -2, 0.25])], ['iop', 0, 'add', one], mk(target)]
            progs.append({'grids': [{'dims': [5], 'sep': True}], 'final': [0, 1, 2], 'stmts': stmts})
    return progs


def _conversion_corpus():
    """every array-protocol conversion spelling (copy / share contract) of a real and a complex Field, followed by an in-place
    update of the converted Field (three kinds in rotation); the converted value is read at the end (`final_views`)"""
    three = ['scal', 'r', 3.0, 0.0, 0]
    upd = [lambda: ['iop', 0, 'mul', three], lambda: ['setix', 0, 'atl', [1], ['scal', 'r', -7.0, 0.0, 0]],
           lambda: ['out', 0, 'sub', ['var', 0], three], lambda: ['fill', 0, three]]
    progs = []
    for k, name in enumerate(sorted(n for n in EXT if EXT[n].get('mem'))):
        for cplx in (False, True):
            f0 = _f(0, [4, -2, 3, 1], 'c' if cplx else 'r', [1, 1, 2, 2] if cplx else None)
            stmts = [['assign', 0, f0], ['assign', 1, ['ext', name, [['var', 0]]]], upd[(k + cplx) % len(upd)]()]
            progs.append({'grids': [{'dims': [4], 'sep': True}], 'final': [0], 'final_views': [1], 'stmts': stmts})
    return progs


# ---------------------------------------------------------------------------------------------
# reference model (Model/FieldRef.lean): buffers, windows, grid objects — copy / pickle / views / conversions / write-through

REF_OPS = 'N F A C P S V Y W I'.split()


def gen_ref_script(rng, nops):
    """ops of the reference model; tracks lengths / kinds so that almost every op is valid"""
    ops, info, nv = [], {}, 0          # info[x] = (length, is_field)
    def fresh():
        nonlocal nv
        nv += 1
        return nv - 1
    k = int(rng.integers(1, 7))
    ops.append(['N', fresh(), int(rng.integers(0, 4)), [int(v) for v in rng.integers(-9, 10, k)]])
    info[0] = (k, True)
    while len(ops) < nops:
        op = str(rng.choice(['N', 'F', 'A', 'C', 'P', 'S', 'S', 'V', 'Y', 'W', 'W', 'I', 'W', 'I']))
        x = int(rng.choice(sorted(info)))
        n, isf = info[x]
        if op == 'N':
            k = int(rng.integers(1, 7))
            y = fresh(); ops.append(['N', y, int(rng.integers(0, 4)), [int(v) for v in rng.integers(-9, 10, k)]]); info[y] = (k, True)
        elif op == 'F':
            if not isf:
                continue
            y = fresh(); ops.append(['F', y, x, [int(v) for v in rng.integers(-9, 10, n)]]); info[y] = (n, True)
        elif op in ('A', 'C', 'P', 'V', 'Y'):
            # the target is a new name, or (sometimes) an existing one: rebinding must not disturb the other names
            y = fresh() if rng.random() < 0.85 else int(rng.choice(sorted(info)))
            ops.append([op, y, x]); info[y] = (n, isf and op in ('A', 'C', 'P'))
        elif op == 'S':
            step = int(rng.integers(1, 4)); start = int(rng.integers(0, n + 1))
            ln = int(rng.integers(0, max(0, (n - start + step - 1) // step) + 1))
            if rng.random() < 0.04:
                ln += 2                   # out of range for the model: NumPy clips a slice, so this is never sent as such
                continue
            y = fresh(); ops.append(['S', y, x, start, step, ln]); info[y] = (ln, isf)
        elif op == 'W':
            if n == 0 and rng.random() < 0.7:
                continue
            i = int(rng.integers(0, n)) if (n and rng.random() < 0.96) else n + int(rng.integers(0, 2))
            ops.append(['W', x, i, int(rng.integers(-20, 21))])
            if i >= n:
                break
        else:
            ops.append(['I', x, int(rng.integers(-5, 6))])
    return ops


def ref_line(ops, sty='good'):
    toks = ['C19', 'ref', sty]
    for o in ops:
        toks += [str(t) if not isinstance(t, list) else '[' + ','.join(str(v) for v in t) + ']' for t in o]
    return ' '.join(toks)


def _mem_root(a):
    """the object that owns the memory of `a` (end of the `.base` chain)"""
    a = a.data if (is_field(a) and not isinstance(a, np.ndarray)) else a
    a = np.asarray(a) if not isinstance(a, np.ndarray) else a
    while isinstance(getattr(a, 'base', None), np.ndarray):
        a = a.base
    return a


def run_ref_real(ops, new_style):
    """the script on the real code; per op the dump [(name, kind, values, memory owner, grid object, grid content)] or 'E'"""
    import hcipy as h
    env, dumps, keep = {}, [], []
    with config(new_style=new_style), warnings.catch_warnings():
        warnings.simplefilter('ignore')
        for o in ops:
            try:
                t = o[0]
                if t == 'N':
                    g = h.make_uniform_grid([len(o[3])], [float(o[2] + 1)])
                    env[o[1]] = h.Field(np.array(o[3], dtype=float), g)
                elif t == 'F':
                    env[o[1]] = h.Field(np.array(o[3], dtype=float), env[o[2]].grid)
                elif t == 'A':
                    env[o[1]] = env[o[2]]
                elif t == 'C':
                    env[o[1]] = env[o[2]].copy()
                elif t == 'P':
                    env[o[1]] = _pickle.loads(_pickle.dumps(env[o[2]], protocol=2 + len(ops) % 4))
                elif t == 'S':
                    env[o[1]] = env[o[2]][o[3]:o[3] + o[4] * o[5]:o[4]]
                elif t == 'V':
                    env[o[1]] = np.asarray(env[o[2]])
                elif t == 'Y':
                    env[o[1]] = np.array(env[o[2]], dtype=np.asarray(env[o[2]]).dtype)
                elif t == 'W':
                    env[o[1]][o[2]] = o[3]
                elif t == 'I':
                    x = env[o[1]]
                    x += o[2]
                    env[o[1]] = x
                else:
                    raise MachineryError('ref op %r' % (o,))
            except MachineryError:
                raise
            except Exception as e:  # noqa
                dumps.append('E:' + type(e).__name__)
                break
            d = []
            for x in sorted(env):
                v = env[x]
                keep.append(v)
                root = _mem_root(v)
                keep.append(root)
                isf = is_field(v)
                g = v.grid if isf else None
                # grid content: read back from the grid itself (extent = content + 1)
                gc = None
                if g is not None:
                    gc = int(round(float(np.ravel(g.delta)[0]) * g.size - 1))
                d.append((x, 'f' if isf else 'a', [float(q) for q in np.asarray(v).ravel()], id(root), id(g) if g is not None else None, gc))
            dumps.append(d)
    return dumps


def _canon_dump(d):
    """ids -> rank of first appearance within the dump"""
    bm, gm, out = {}, {}, []
    for x, kind, vals, b, g, gc in d:
        bm.setdefault(b, len(bm))
        if g is not None:
            gm.setdefault(g, len(gm))
        out.append((x, kind, tuple(vals), bm[b], gm[g] if g is not None else None, gc))
    return out


def parse_ref_answer(line):
    if not line.startswith('ok'):
        return None
    body = line[2:].strip()
    dumps = []
    for seg in body.split('|'):
        seg = seg.strip()
        if seg.startswith('E'):
            dumps.append('E')
            break
        d = []
        for tok in seg.split():
            if tok == '-':
                continue
            x, kind, vals, b, g, c = tok.split(':')
            d.append((int(x), kind, [float(v) for v in vals[1:-1].split(',') if v], int(b[1:]), None if g == 'g-' else int(g[1:]), None if c == 'c-' else int(c[1:])))
        dumps.append(d)
    return dumps


def ref_oracle(ops, old, new):
    """the property on the real code, no model: both styles give the same values, the same sharing of memory and the same
    sharing / equality of grids after every op; copies, pickles and np.array snapshots own their memory; a write through a
    name is seen by exactly the names that share its memory"""
    bad = []
    for k, (a, b) in enumerate(zip(old, new)):
        if isinstance(a, str) or isinstance(b, str):
            if isinstance(a, str) != isinstance(b, str) or a != b:
                bad.append(('ref error-class %s' % ops[k][0], 'op %d %r: old-style %s, new-style %s' % (k, ops[k], a if isinstance(a, str) else 'works', b if isinstance(b, str) else 'works')))
            break
        ca, cb = _canon_dump(a), _canon_dump(b)
        for ea, eb in zip(ca, cb):
            if ea[2] != eb[2]:
                bad.append(('ref values %s' % ops[k][0], 'after op %d %r variable %d holds %r with old-style and %r with new-style fields' % (k, ops[k], ea[0], list(ea[2]), list(eb[2]))))
            elif ea[1] != eb[1] or ea[4] != eb[4] or ea[5] != eb[5]:
                bad.append(('ref grid %s' % ops[k][0], 'after op %d %r variable %d: kind / grid object / grid content %r with old-style, %r with new-style fields' % (k, ops[k], ea[0], (ea[1], ea[4], ea[5]), (eb[1], eb[4], eb[5]))))
            elif ea[3] != eb[3]:
                bad.append(('ref sharing %s' % ops[k][0], 'after op %d %r variable %d shares memory differently: class %d with old-style, %d with new-style fields' % (k, ops[k], ea[0], ea[3], eb[3])))
        if bad:
            break
    # contract of the op itself, per style
    for mode, run in (('old', old), ('new', new)):
        for k, d in enumerate(run):
            if isinstance(d, str):
                break
            o = ops[k]
            ent = {e[0]: e for e in d}
            if o[0] in ('C', 'P', 'Y') and o[1] != o[2]:
                y, x = ent[o[1]], ent[o[2]]
                others = [e for e in d if e[0] != o[1] and e[3] == y[3]]
                if others:
                    bad.append(('ref not-fresh %s %s' % (mode, o[0]), 'op %d %r with %s-style fields: the result shares memory with variable %d' % (k, o, mode, others[0][0])))
                if y[2] != x[2]:
                    bad.append(('ref values %s %s' % (mode, o[0]), 'op %d %r with %s-style fields: the result holds %r, the source %r' % (k, o, mode, y[2], x[2])))
                if o[0] == 'C' and y[4] != x[4]:
                    bad.append(('ref grid %s C' % mode, 'op %d %r with %s-style fields: the copy is not on the grid object of the source' % (k, o, mode)))
                if o[0] == 'P' and x[4] is not None and (y[4] is None or y[4] == x[4] or y[5] != x[5]):
                    bad.append(('ref grid %s P' % mode, 'op %d %r with %s-style fields: the unpickled field must be on a new, equal grid' % (k, o, mode)))
            if o[0] in ('A', 'S', 'V') and o[1] != o[2] and o[1] in ent and o[2] in ent and not (o[0] == 'S' and o[5] == 0):
                if ent[o[1]][3] != ent[o[2]][3]:
                    bad.append(('ref not-shared %s %s' % (mode, o[0]), 'op %d %r with %s-style fields: the result does not share the memory of its source' % (k, o, mode)))
            if o[0] in ('W', 'I') and k > 0 and not isinstance(run[k - 1], str):
                before = {e[0]: e for e in run[k - 1]}
                xb = before[o[1]]
                for e in d:
                    if e[0] in before and before[e[0]][3] != xb[3] and before[e[0]][2] != e[2]:
                        bad.append(('ref frame %s %s' % (mode, o[0]), 'op %d %r with %s-style fields changed variable %d, which does not share its memory' % (k, o, mode, e[0])))
                if o[0] == 'W' and ent[o[1]][2][o[2]] != float(o[3]):
                    bad.append(('ref lost-write %s' % mode, 'op %d %r with %s-style fields: the variable reads %r afterwards' % (k, o, mode, ent[o[1]][2])))
                if o[0] == 'I' and [v + o[2] for v in xb[2]] != ent[o[1]][2]:
                    bad.append(('ref lost-write %s' % mode, 'op %d %r with %s-style fields: the variable reads %r afterwards (before: %r)' % (k, o, mode, ent[o[1]][2], xb[2])))
    return bad


def check_ref(ctx, ops, answer=None):
    old = run_ref_real(ops, False)
    new = run_ref_real(ops, True)
    bad = ref_oracle(ops, old, new)
    if ctx is None:
        return bad
    seen = set()
    for key, what in bad:
        if key not in seen:
            seen.add(key)
            ctx.violation(key, what, {'ref': ops})
    if answer is not None:
        model = parse_ref_answer(answer)
        if model is None:
            ctx.disagree('C19 ref vs model', 'model rejected %r: %r' % (ref_line(ops), answer[:80]), key='ref rejected')
        else:
            for mode, run in (('old', old), ('new', new)):
                ctx.traces_validated += 1
                if len(run) != len(model):
                    ctx.disagree('C19 ref vs model', '%s-style: %d ops observed, model %d (%r)' % (mode, len(run), len(model), ops), key='ref length')
                    continue
                for k, (r, m) in enumerate(zip(run, model)):
                    if isinstance(r, str) or isinstance(m, str):
                        if isinstance(r, str) != isinstance(m, str):
                            ctx.disagree('C19 ref vs model', '%s-style op %d %r: code %s, model %s' % (mode, k, ops[k], r if isinstance(r, str) else 'works', m if isinstance(m, str) else 'works'), key='ref error')
                        break
                    cr = [e[:5] + (e[5],) for e in _canon_dump(r)]
                    cm = [(e[0], e[1], tuple(e[2]), e[3], e[4], e[5]) for e in _canon_dump(m)]
                    if cr != cm:
                        ctx.disagree('C19 ref vs model', '%s-style after op %d %r: code %r, model %r' % (mode, k, ops[k], cr, cm), key='ref dump %s' % ops[k][0])
                        break
    return bad


REF_DIRECTED = [
    # copy / pickle / np.array snapshots, then updates of the field itself
    [['N', 0, 1, [1, 2, 3, 4]], ['C', 1, 0], ['P', 2, 0], ['Y', 3, 0], ['V', 4, 0], ['A', 5, 0], ['W', 0, 1, 9], ['I', 0, 2]],
    # views of views, writes through the view and through the root
    [['N', 0, 2, [1, 2, 3, 4, 5, 6]], ['S', 1, 0, 1, 2, 3], ['S', 2, 1, 1, 1, 2], ['W', 2, 0, -7], ['W', 0, 5, 8], ['I', 1, 1], ['C', 3, 1], ['I', 0, 1]],
    # two fields on one grid object, pickle makes a new equal grid; rebinding a name
    [['N', 0, 3, [5, 6]], ['F', 1, 0, [7, 8]], ['P', 2, 1], ['A', 0, 2], ['W', 0, 0, 1], ['Y', 1, 1], ['I', 1, 3]],
    # conversions of a view; out-of-range write fails under every style
    [['N', 0, 0, [1, 2, 3]], ['S', 1, 0, 0, 2, 2], ['V', 2, 1], ['Y', 3, 1], ['I', 0, 4], ['P', 4, 2], ['W', 1, 2, 5]],
]


def run_ref_tie(ctx):
    rng = ctx.rng
    scripts = [list(sc) for sc in REF_DIRECTED]
    for _ in range(ctx.scale(250, 4000)):
        scripts.append(gen_ref_script(rng, int(rng.integers(3, 13))))
    out = ctx.model([ref_line(sc) for sc in scripts])
    for sc, ans in zip(scripts, out):
        check_ref(ctx, sc, ans)
        ctx.count('ref-scripts')
        for o in sc:
            ctx.count('ref-op:' + o[0])
        ctx.case(None, nontrivial_key=('ref', tuple(o[0] for o in sc)) if len(sc) >= 3 else None)
    # the model distinguishes the defective wrappers it is used to rule out (Bad.* theorems): slice-copies and array-shares
    probes = [('badslice', REF_DIRECTED[1]), ('badarray', REF_DIRECTED[0])]
    ans = ctx.model([ref_line(sc, sty) for sty, sc in probes] + [ref_line(sc) for _, sc in probes])
    for (sty, sc), a, g in zip(probes, ans[:2], ans[2:]):
        ctx.traces_validated += 1
        if a == g:
            ctx.disagree('C19 ref vs model', 'style %s gives the same trace as the good style on %r' % (sty, sc), key='ref bad-style')


# ---------------------------------------------------------------------------------------------
# the MFT switch model over the concrete kernel of C01's MFT model (driver op `mftk`) against a reused real object

def _psum_values(tok):
    vals = []
    for samp in tok.split(';'):
        z = 0j
        if samp != '0':
            for term in samp.split('+'):
                c, t, r = (Fraction(q) for q in term.split(':'))
                z += float(c) * np.exp(2j * np.pi * float(t)) * np.exp(1j * float(r))
        vals.append(z)
    return np.array(vals)


def _rl(l):
    return '[' + ','.join(str(Fraction(v)) for v in l) + ']'


def gen_mftk_case(rng):
    def coords(n):
        c = sorted(set(dyadic_small(rng) for _ in range(n + 2)))[:n]
        return c if len(c) == n else [Fraction(i, 2) for i in range(n)]
    nx, ny, nu, nv = (int(rng.integers(1, 4)) for _ in range(4))
    case = {'x': coords(nx), 'y': coords(ny), 'u': coords(nu), 'v': coords(nv)}
    case['w'] = [dyadic_small(rng, pos=True)] if rng.random() < 0.5 or nx * ny == 1 else [dyadic_small(rng, pos=True) for _ in range(nx * ny)]
    case['wo'] = [dyadic_small(rng, pos=True)] if rng.random() < 0.5 or nu * nv == 1 else [dyadic_small(rng, pos=True) for _ in range(nu * nv)]
    script = []
    for _ in range(int(rng.integers(2, 6))):
        d = 'f' if rng.random() < 0.6 else 'b'
        script.append([d, int(rng.choice([64, 128])), int(rng.integers(0, nx * ny if d == 'f' else nu * nv))])
    case['script'] = script
    for k in 'xyuv':
        case[k] = [str(q) for q in case[k]]
    case['w'] = [str(q) for q in case['w']]; case['wo'] = [str(q) for q in case['wo']]
    return case


def dyadic_small(rng, pos=False):
    v = Fraction(int(rng.integers(1 if pos else -12, 13)), int(rng.choice([1, 2, 4, 8])))
    return v if (v != 0 or not pos) else Fraction(1, 2)


def mftk_line(case, pre, alloc):
    return 'C19 mftk %d %d %s %s %s %s %s %s %s' % (pre, alloc, _rl(case['x']), _rl(case['y']), _rl(case['u']), _rl(case['v']), _rl(case['w']), _rl(case['wo']),
                                                    ' '.join('%s.%d.%d' % (d, p, j) for d, p, j in case['script']))


def run_mftk_real(case, pre, alloc, new_style):
    import hcipy as h
    fl = lambda l: np.array([float(Fraction(q)) for q in l])
    def grid(a, b, w):
        w = fl(w)
        return h.CartesianGrid(h.SeparatedCoords([fl(a), fl(b)]), weights=(np.float64(w[0]) if len(w) == 1 else w))
    out = []
    with config(new_style=new_style, mft_pre=pre, mft_alloc=alloc), warnings.catch_warnings():
        warnings.simplefilter('error')
        warnings.filterwarnings('ignore', category=SyntaxWarning)
        warnings.filterwarnings('ignore', category=DeprecationWarning)
        gin, gout = grid(case['x'], case['y'], case['w']), grid(case['u'], case['v'], case['wo'])
        ft = h.MatrixFourierTransform(gin, gout)
        for d, p, j in case['script']:
            g = gin if d == 'f' else gout
            a = np.zeros(g.size, dtype='complex%d' % p)
            a[j] = 1
            r = ft.forward(h.Field(a, g)) if d == 'f' else ft.backward(h.Field(a, g))
            out.append(np.array(np.asarray(r), dtype=complex))
    return out


def check_mftk(ctx, case, answers=None, c01=None):
    """answers: {(pre, alloc): model answer line}; c01: answers of C01's own executed pipeline per call"""
    bad = []
    real = {}
    for pre in (0, 1):
        for alloc in (0, 1):
            for ns in (False, True):
                try:
                    real[(pre, alloc, ns)] = run_mftk_real(case, bool(pre), bool(alloc), ns)
                except MachineryError:
                    raise
                except Exception as e:  # noqa (Warning included)
                    bad.append(('mftk raises pre=%d alloc=%d' % (pre, alloc), 'one MatrixFourierTransform object reused over %r with precompute_matrices=%r, allocate_intermediate=%r, new-style %r: %s: %s' % (
                        case['script'], bool(pre), bool(alloc), ns, type(e).__name__, str(e)[:100])))
    ref = real.get((0, 0, False))
    if ref is not None:
        for key, out in sorted(real.items()):
            for i, (a, b) in enumerate(zip(ref, out)):
                tol = (5e-4 if case['script'][i][1] == 64 else 1e-9) * max(1.0, float(np.max(np.abs(a))))
                if a.shape != b.shape or float(np.max(np.abs(a - b))) > tol:
                    bad.append(('mftk values pre=%d alloc=%d' % key[:2], 'call %d %r on one reused MatrixFourierTransform (precompute_matrices=%r, allocate_intermediate=%r, new-style %r) differs from the switch-less object' % (
                        i, case['script'][i], bool(key[0]), bool(key[1]), key[2])))
                    break
    if ctx is None:
        return bad
    seen = set()
    for key, what in bad:
        if key not in seen:
            seen.add(key)
            ctx.violation(key, what, {'mftk': case})
    if answers:
        base = answers[(0, 0)]
        for key, a in sorted(answers.items()):
            ctx.traces_validated += 1
            if not a.startswith('ok '):
                ctx.disagree('C19 mftk vs model', 'model rejected %r' % (mftk_line(case, *key),), key='mftk rejected')
                return bad
            if a != base:
                ctx.disagree('C19 mftk vs model', 'the model over the concrete kernel gives different results for switches %r and (0, 0) on %r' % (key, case), key='mftk switch')
        segs = [t.strip() for t in base[3:].split('|')]
        if c01 is not None:
            for i, (seg, c) in enumerate(zip(segs, c01)):
                ctx.traces_validated += 1
                if 'ok ' + seg != c:
                    ctx.disagree('C19 mftk vs model', 'call %d %r: switch model over mftKern gives %r, C01\'s executed MFT pipeline %r' % (i, case['script'][i], seg[:80], c[:80]), key='mftk vs C01')
        if ref is not None:
            for i, (seg, r) in enumerate(zip(segs, ref)):
                ctx.traces_validated += 1
                m = _psum_values(seg)
                if case['script'][i][0] == 'b':
                    m = m / (2 * np.pi)**2        # `weights_output` of the object = grid weights / (2 pi)^ndim; the model is given the grid weights
                tol = (5e-4 if case['script'][i][1] == 64 else 1e-9) * max(1.0, float(np.max(np.abs(m))) if m.size else 1.0)
                if m.shape != r.shape or float(np.max(np.abs(m - r))) > tol:
                    ctx.disagree('C19 mftk vs model', 'call %d %r of %r: the real MatrixFourierTransform gives %r, the model %r' % (i, case['script'][i], {k: case[k] for k in 'xyuv'}, r[:4], m[:4]), key='mftk values')
    return bad


def run_mftk_tie(ctx):
    rng = ctx.rng
    cases = [gen_mftk_case(rng) for _ in range(ctx.scale(12, 120))]
    lines = []
    for c in cases:
        for pre in (0, 1):
            for alloc in (0, 1):
                lines.append(mftk_line(c, pre, alloc))
        for d, p, j in c['script']:
            lines.append('C01 mft %s %s %s %s %s %s %d' % ('fwd' if d == 'f' else 'bwd', _rl(c['x']), _rl(c['y']), _rl(c['u']), _rl(c['v']), _rl(c['w'] if d == 'f' else c['wo']), j))
    out = ctx.model(lines)
    k = 0
    for c in cases:
        answers = {}
        for pre in (0, 1):
            for alloc in (0, 1):
                answers[(pre, alloc)] = out[k]; k += 1
        c01 = out[k:k + len(c['script'])]; k += len(c['script'])
        check_mftk(ctx, c, answers, c01)
        ctx.count('mftk-cases')
        ctx.count('mftk-weights:%s/%s' % ('scalar' if len(c['w']) == 1 else 'array', 'scalar' if len(c['wo']) == 1 else 'array'))
        ctx.case(None, nontrivial_key=('mftk', tuple(map(tuple, c['script'])), len(c['x']), len(c['y']), len(c['u']), len(c['v'])))


# ---------------------------------------------------------------------------------------------
# the dispatch table (tie T2): which operations the two Field implementations handle and how they re-wrap the result, probed on the
# running code on every run and written to lean/HcipyVerif/Gen/FieldDispatch.lean; Properties/C19.lean proves over that table that
# every entry is handled as the model's wrapping policies say and that every elementwise entry keeps the grid under both styles

DISPATCH_REDUCTIONS = ['sum', 'prod', 'mean', 'max', 'min', 'any', 'all']
DISPATCH_KEEP = ['cumsum', 'cumprod', 'sort', 'argsort', 'astype', 'copy', 'conj']
NDARRAY_API_SKIP = ('__',)


def _obs_of(r, g, wrote=None):
    if wrote is not None and not wrote:
        return 'other'
    if isinstance(r, tuple):
        return 'tupleFields' if r and all(is_field(x) and x.grid is g for x in r) else 'tupleOther'
    if is_field(r):
        return 'field' if r.grid is g else 'fieldOther'
    if isinstance(r, np.ndarray):
        return 'plain'
    if isinstance(r, (np.generic, float, complex, int, bool)):
        return 'scalar'
    return 'other'


def _dispatch_rows_for_style(new_style):
    """[(name, kind, args tags, zeroD, obs)] observed with the configured style; deterministic order"""
    import hcipy as h
    rows = []
    with config(new_style=new_style), warnings.catch_warnings(), np.errstate(all='ignore'):
        warnings.simplefilter('ignore')
        g = h.make_uniform_grid([4], [1.0])
        probes = {
            'd': ([1.5, -2.0, 3.0, 0.5], [2.0, 1.0, 0.5, 4.0], 2.0),
            'i': ([3, 5, 6, 9], [2, 1, 3, 4], 2),
            'b': ([True, False, True, True], [False, False, True, True], True),
        }

        def attempt(fn):
            try:
                return fn()
            except Exception:  # noqa
                return _RAISED

        def add(name, kind, tags, zero, fn, wrote=None, ref=None):
            if ref is not None and attempt(ref) is _RAISED:
                return               # NumPy itself refuses this variant on plain arrays (e.g. `np.less.accumulate`)
            r = attempt(fn)
            if r is _RAISED:
                rows.append((name, kind, tags, zero, 'raised'))
            else:
                w = None if wrote is None else bool(attempt(wrote) is True)
                rows.append((name, kind, tags, zero, _obs_of(r, g, w)))

        ufuncs = sorted((n for n in dir(np) if isinstance(getattr(np, n), np.ufunc) and getattr(np, n).signature is None), key=str)
        seen = set()
        for n in ufuncs:
            uf = getattr(np, n)
            if uf.__name__ in seen:
                continue
            seen.add(uf.__name__)
            n = uf.__name__
            # the first probe dtype on which the plain-array call works decides the operands
            pk = None
            for k in 'dib':
                A, B, sc = probes[k]
                a, b = np.array(A), np.array(B)
                try:
                    ref = uf(a) if uf.nin == 1 else uf(a, b)
                    pk = k
                    break
                except Exception:  # noqa
                    continue
            if pk is None or uf.nin > 2:
                continue
            A, B, sc = probes[pk]
            a, b = np.array(A), np.array(B)
            f, f2 = h.Field(np.array(A), g), h.Field(np.array(B), g)
            f0 = h.Field(np.array(A[0]), g)
            kind = 'fn ufunc' if uf.nout == 1 else 'fnMulti'
            F = '(field 0)'
            if uf.nin == 1:
                add('%s(f)' % n, kind, [F], False, lambda: uf(f))
                if uf.nout == 1:
                    add('%s(f0)' % n, kind, [F], True, lambda: uf(f0))
                    o = h.Field(np.zeros_like(ref), g)
                    add('%s(f,out=o)' % n, kind, [F], False, lambda: uf(f, out=o), lambda: bool(np.array_equal(np.asarray(o), ref, equal_nan=True)))
                    o2 = h.Field(np.zeros_like(ref), g)
                    m = h.Field(np.array([True, False, True, False]), g)
                    add('%s(f,out=o,where=m)' % n, kind, [F], False, lambda: uf(f, out=o2, where=m),
                        lambda: bool(np.array_equal(np.asarray(o2)[::2], ref[::2], equal_nan=True) and not np.any(np.asarray(o2)[1::2])))
            else:
                add('%s(f,f)' % n, kind, [F, F], False, lambda: uf(f, f2))
                add('%s(f,a)' % n, kind, [F, 'plain'], False, lambda: uf(f, b))
                add('%s(a,f)' % n, kind, ['plain', F], False, lambda: uf(a, f2))
                add('%s(f,s)' % n, kind, [F, 'scalar'], False, lambda: uf(f, sc))
                add('%s(s,f)' % n, kind, ['scalar', F], False, lambda: uf(sc, f2))
                if uf.nout == 1:
                    add('%s(f0,f0)' % n, kind, [F, F], True, lambda: uf(f0, f0))
                    o = h.Field(np.zeros_like(ref), g)
                    add('%s(f,f,out=o)' % n, kind, [F, F], False, lambda: uf(f, f2, out=o), lambda: bool(np.array_equal(np.asarray(o), ref, equal_nan=True)))
                    o3 = h.Field(np.zeros_like(ref), g)
                    add('%s(a,a,out=o)' % n, kind, ['plain', 'plain', F], False, lambda: uf(a, b, out=o3), lambda: bool(np.array_equal(np.asarray(o3), ref, equal_nan=True)))
                    m = h.Field(np.array([True, False, True, False]), g)
                    o2 = h.Field(np.zeros_like(ref), g)
                    add('%s(f,f,out=o,where=m)' % n, kind, [F, F], False, lambda: uf(f, f2, out=o2, where=m),
                        lambda: bool(np.array_equal(np.asarray(o2)[::2], ref[::2], equal_nan=True) and not np.any(np.asarray(o2)[1::2])))
                    add('%s.accumulate(f)' % n, 'fn ufunc', [F], False, lambda: uf.accumulate(f), ref=lambda: uf.accumulate(a))
                    add('%s.outer(f,f)' % n, 'fn ufunc', [F, F], False, lambda: uf.outer(f, f2), ref=lambda: uf.outer(a, b))
                    add('%s.reduce(f)' % n, 'fn reduce', [F], True, lambda: uf.reduce(f), ref=lambda: uf.reduce(a))
        # reductions with axis / keepdims, as method and as function, on a scalar field and on a 2-vector field
        f = h.Field(np.array([1.5, -2.0, 3.0, 0.5]), g)
        T = h.Field(np.array([[1.5, -2.0, 3.0, 0.5], [2.0, 1.0, 0.5, 4.0]]), g)
        F = '(field 0)'
        for n in DISPATCH_REDUCTIONS:
            for spell, call in (('f.%s' % n, lambda x, **kw: getattr(x, n)(**kw)), ('np.%s' % n, lambda x, **kw: getattr(np, n)(x, **kw))):
                add('%s()' % spell, 'fn reduce', [F], True, lambda: call(f))
                add('%s(keepdims)' % spell, 'fn reduce', [F], False, lambda: call(f, keepdims=True))
                add('%s(T,axis=0)' % spell, 'fn reduce', [F], False, lambda: call(T, axis=0))
                add('%s(T,axis=-1)' % spell, 'fn reduce', [F], False, lambda: call(T, axis=-1))
                add('%s(T,axis=-1,keepdims)' % spell, 'fn reduce', [F], False, lambda: call(T, axis=-1, keepdims=True))
                add('%s(T)' % spell, 'fn reduce', [F], True, lambda: call(T))
        for n in DISPATCH_KEEP:
            arg = (float,) if n == 'astype' else ()
            if n != 'sort':          # the method sorts in place and returns None
                add('f.%s' % n, 'fn keep', [F], False, lambda: getattr(f, n)(*arg))
            if hasattr(np, n) and n not in ('astype', 'copy'):
                add('np.%s(f)' % n, 'fn keep', [F], False, lambda: getattr(np, n)(f))
        add('np.copy(f)', 'fn func', [F], False, lambda: np.copy(f))      # subok=False: the subclass is dropped, the wrapper re-wraps
        for n in ('argmax', 'argmin'):
            add('f.%s()' % n, 'fn scalarIf0d', [F], True, lambda: getattr(f, n)())
            add('T.%s(axis=0)' % n, 'fn scalarIf0d', [F], False, lambda: getattr(T, n)(axis=0))
        add('np.where(m,f,a)', 'fn func', ['plain', F, 'plain'], False, lambda: np.where(np.array([True, False, True, False]), f, np.zeros(4)))
        add('np.where(mf,a,a)', 'fn func', [F, 'plain', 'plain'], False, lambda: np.where(f > 0, np.ones(4), np.zeros(4)))
        # __getitem__: index kinds
        mask = np.array([True, False, True, True])
        for name, ix, zero, src in (('f[1]', 1, True, f), ('f[-1]', -1, True, f), ('f[1:3]', slice(1, 3), False, f), ('f[::-2]', slice(None, None, -2), False, f),
                                    ('f[[0,2]]', [0, 2], False, f), ('f[mask]', mask, False, f), ('f[fieldmask]', None, False, f), ('f[...]', Ellipsis, False, f),
                                    ('f[None]', None, False, f), ('T[0]', 0, False, T), ('T[:,1]', (slice(None), 1), False, T), ('T[1,2]', (1, 2), True, T),
                                    ('T[...,1:3]', (Ellipsis, slice(1, 3)), False, T), ('T[:,mask]', (slice(None), mask), False, T)):
            if name == 'f[fieldmask]':
                add(name, 'getitem', [F], zero, lambda: f[f > 0])
            else:
                add(name, 'getitem', [F], zero, lambda: src[ix])
        # __setitem__: index kinds x value kinds; the target must hold the values afterwards
        for name, ix, val in (('f[1]=s', 1, 7.0), ('f[1:3]=a', slice(1, 3), np.array([7.0, 8.0])), ('f[1:3]=f', slice(1, 3), 'field2'), ('f[mask]=s', mask, 7.0),
                              ('f[[0,2]]=a', [0, 2], np.array([7.0, 8.0])), ('f[...]=s', Ellipsis, 7.0), ('f[fieldmask]=s', 'fieldmask', 7.0), ('T[:,1]=a', (slice(None), 1), np.array([7.0, 8.0])),
                              ('T[0]=f', 0, 'field4')):
            src = h.Field(np.array([[1.5, -2.0, 3.0, 0.5], [2.0, 1.0, 0.5, 4.0]]) if name[0] == 'T' else np.array([1.5, -2.0, 3.0, 0.5]), g)
            ref = np.array(np.asarray(src))
            v = h.Field(np.array([7.0, 8.0]), g) if isinstance(val, str) and val == 'field2' else h.Field(np.array([7.0, 8.0, 9.0, 10.0]), g) if isinstance(val, str) and val == 'field4' else val
            i2 = (src > 0) if isinstance(ix, str) else ix
            ref[np.asarray(i2) if isinstance(ix, str) else ix] = np.asarray(v)
            def do(src=src, i2=i2, v=v):
                src[i2] = v
                return src
            add(name, 'setitem', [F], False, do, lambda src=src, ref=ref: bool(np.array_equal(np.asarray(src), ref)))
        # which public ndarray attributes exist on a Field of this style
        meths = []
        for n in sorted(dir(np.ndarray)):
            if n.startswith('_'):
                continue
            try:
                getattr(f, n)
                meths.append((n, True))
            except AttributeError:
                meths.append((n, False))
            except Exception:  # noqa
                meths.append((n, True))
    return rows, meths


_RAISED = object()


def dispatch_probe():
    """([(name, kind, tags, zeroD, old obs, new obs)], [(attribute, on old-style, on new-style)])"""
    ro, mo = _dispatch_rows_for_style(False)
    rn, mn = _dispatch_rows_for_style(True)
    if [r[:4] for r in ro] != [r[:4] for r in rn] or [m[0] for m in mo] != [m[0] for m in mn]:
        raise MachineryError('dispatch probe: the two styles produced different entry lists')
    # `setitem` entries report `wrote` when the target holds the values
    def ob(r):
        return 'wrote' if r[1] == 'setitem' and r[4] in ('field', 'fieldOther') else 'other' if r[1] == 'setitem' and r[4] != 'raised' else r[4]
    return [(a[0], a[1], a[2], a[3], ob(a), ob(b)) for a, b in zip(ro, rn)], [(a[0], a[1], b[1]) for a, b in zip(mo, mn)]


def emit_dispatch(rows, meths):
    L = ['-- GENERATED by harness/props/c19.py (tie T2) from the running hcipy: every NumPy ufunc (all operand / out= / where= / method variants),',
         '-- reductions with axis / keepdims, index kinds of __getitem__ / __setitem__ and the public ndarray attributes are probed on an',
         '-- OldStyleField and a NewStyleField; the observed kind of result is recorded.  Do not edit; `./check C19` rewrites this file',
         '-- (byte-identical while the code is unchanged).',
         '', 'import HcipyVerif.Model.FieldDispatch', '', 'namespace HcipyVerif.Gen.FieldDispatch', 'open HcipyVerif.FieldProg HcipyVerif.FieldDispatch', '',
         '/-- %d probed operations: name, class, operand tags, raw result 0-d?, observed (old-style), observed (new-style) -/' % len(rows),
         'def table : List Entry := [']
    for i, (name, kind, tags, zero, o, n) in enumerate(rows):
        k = {'getitem': '.getitem', 'setitem': '.setitem', 'fnMulti': '.fnMulti'}.get(kind) or '(.fn .%s)' % kind.split()[1]
        t = '[' + ', '.join('.field 0' if x.startswith('(') else '.' + x for x in tags) + ']'
        L.append('  ⟨"%s", %s, %s, %s, .%s, .%s⟩%s' % (name, k, t, 'true' if zero else 'false', o, n, ',' if i + 1 < len(rows) else ''))
    L += [']', '', '/-- public attributes of `numpy.ndarray`: name, present on an OldStyleField, present on a NewStyleField -/', 'def attributes : List Attr := [']
    for i, (name, o, n) in enumerate(meths):
        L.append('  ⟨"%s", %s, %s⟩%s' % (name, 'true' if o else 'false', 'true' if n else 'false', ',' if i + 1 < len(meths) else ''))
    L += [']', '', 'end HcipyVerif.Gen.FieldDispatch', '']
    return '\n'.join(L)


def regenerate(ctx):
    from harness.props import _poly_ident as pid
    try:
        rows, meths = dispatch_probe()
    except MachineryError:
        raise
    except Exception as e:  # noqa
        ctx.obligation_failures.append({'kind': 't2-exception', 'detail': 'dispatch probe: %s: %s' % (type(e).__name__, e)})
        return
    ctx.extra['gen_diff'] = [pid.write_gen('FieldDispatch.lean', emit_dispatch(rows, meths))]
    ctx.extra['dispatch_table'] = {'entries': len(rows), 'attributes': len(meths)}


DISPATCH_ATTR_EXEMPT = ['base', 'byteswap', 'ctypes', 'device', 'dump', 'dumps', 'getfield', 'resize', 'setfield', 'setflags', 'strides', 'to_device', 'tobytes', 'tofile', 'view']


def dispatch_oracle(rows, meths):
    """the property clause on the probed behaviour, no model: an elementwise operation with a Field operand returns a Field on that
    grid under both styles (0-d results exempt), writes through `out=`, `__setitem__` writes, `__getitem__` keeps the grid"""
    bad = []
    for name, kind, tags, zero, o, n in rows:
        for mode, v in (('old', o), ('new', n)):
            elementwise = kind in ('fn ufunc', 'fnMulti') and any(t.startswith('(') for t in tags) and not zero
            if elementwise and v not in ('field', 'tupleFields'):
                variant = name[len(name.split('(')[0].split('.')[0]):]          # the ufunc's name stripped: `(f,a)`, `.accumulate(f)`, `(f,out=o,where=m)`
                bad.append(('dispatch grid-lost %s ufunc%s' % (mode, variant), '%s with %s-style fields returns %s instead of a Field on the grid of its Field operand' % (name, mode, v)))
            elif kind == 'setitem' and v != 'wrote':
                bad.append(('dispatch setitem %s' % mode, '%s with %s-style fields: %s (the target does not hold the assigned values)' % (name, mode, v)))
            elif kind == 'getitem' and not zero and v != 'field':
                bad.append(('dispatch getitem %s' % mode, '%s with %s-style fields returns %s instead of a Field on the same grid' % (name, mode, v)))
            elif kind in ('fn reduce', 'fn keep') and not zero and v != 'field':
                bad.append(('dispatch %s %s' % (kind.split()[1], mode), '%s with %s-style fields returns %s instead of a Field on the same grid' % (name, mode, v)))
        if (o == 'raised') != (n == 'raised'):
            bad.append(('dispatch raises %s' % ('new' if n == 'raised' else 'old'), '%s works with one Field style and raises with the other (old: %s, new: %s)' % (name, o, n)))
    for name, o, n in meths:
        if o and not n and name not in DISPATCH_ATTR_EXEMPT:
            bad.append(('dispatch missing %s' % name, 'ndarray attribute %r exists on old-style fields and is missing on new-style fields' % name))
    return bad


def run_dispatch_tie(ctx):
    rows, meths = dispatch_probe()
    seen = set()
    for key, what in dispatch_oracle(rows, meths):
        if key not in seen:
            seen.add(key)
            ctx.violation(key, what, {'dispatch': key})
    ans = ctx.model(['C19 dispatch'])[0]
    toks = ans.split()
    ctx.traces_validated += 1
    if toks[:1] != ['ok'] or len(toks) < 7:
        ctx.disagree('C19 dispatch vs model', 'model answered %r' % ans[:80], key='dispatch rejected')
        return
    # ok <entries> <attributes> <failing entries|-> <missing attributes|-> <elementwise> <keeping the grid> then one `<old>/<new>` prediction per entry
    if int(toks[1]) != len(rows) or int(toks[2]) != len(meths):
        ctx.disagree('C19 dispatch vs model', 'the table built into the driver has %s entries / %s attributes, the running code gives %d / %d' % (toks[1], toks[2], len(rows), len(meths)), key='dispatch stale')
        return
    if toks[3] != '-' or toks[4] != '-':
        ctx.disagree('C19 dispatch vs model', 'entries not handled as the wrapping policies of the model say: %s; attributes missing on the wrapper: %s' % (toks[3], toks[4]), key='dispatch table')
    # number of elementwise entries (ufunc class, a Field operand, array result) and of those that keep the grid, as the model counts them
    n_ew = sum(1 for name, kind, tags, zero, o, n in rows if kind in ('fn ufunc', 'fnMulti') and any(t.startswith('(') for t in tags) and not zero)
    n_kept = sum(1 for name, kind, tags, zero, o, n in rows if kind in ('fn ufunc', 'fnMulti') and any(t.startswith('(') for t in tags) and not zero
                 and o in ('field', 'tupleFields') and n in ('field', 'tupleFields'))
    ctx.traces_validated += 1
    if [int(toks[5]), int(toks[6])] != [n_ew, n_kept]:
        ctx.disagree('C19 dispatch vs model', 'elementwise entries / keeping the grid: model %s / %s, running code %d / %d' % (toks[5], toks[6], n_ew, n_kept), key='dispatch elementwise')
    ctx.count('dispatch-elementwise', n_ew)
    for (name, kind, tags, zero, o, n), pred in zip(rows, toks[7:]):
        ctx.traces_validated += 1
        ctx.count('dispatch:' + kind)
        if pred != '%s/%s' % (o, n):
            ctx.disagree('C19 dispatch vs model', '%s: the running code gives %s/%s (old/new), the model\'s policies predict %s' % (name, o, n, pred), key='dispatch ' + kind)
    ctx.count('dispatch-attributes', len(meths))
    ctx.case(None, nontrivial_key=('dispatch', len(rows)))


def check_program(ctx, prog, label):
    plain = run_program(prog, 'plain')
    old = run_program(prog, 'old')
    new = run_program(prog, 'new')
    # the mixed-style run: every program in the quick tier, every second one in the thorough tier (time budget)
    ctx._nprog = getattr(ctx, '_nprog', 0) + 1
    mixed = False
    if ctx.tier != 'thorough' or ctx._nprog % 2 == 0 or label == 'directed':
        mixed = run_program(prog, 'mixed')
        ctx.count('mixed-style-runs')
    fails = oracle(prog, plain, old, new, mixed)
    if fails:
        seen = set()
        for key, what in fails:
            if key in seen:
                continue
            seen.add(key)
            case = prog
            if not ctx.known_key(key):
                try:
                    case = shrink(prog, [(key, what)])
                except Exception:
                    case = prog
            ctx.violation(key, what, {'prog': case})
    nst = len(prog['stmts'])
    kinds = sorted(set(stmt_sig(s).split('.')[0].split('=')[0] for s in prog['stmts']))
    errored = bool(plain[0]) and plain[0][-1][0] == 'E'
    ctx.count('programs:' + label)
    if prog.get('final_views'):
        ctx.count('views-read-after-update-of-their-root', len(prog['final_views']))
    ctx.count('statements', nst)
    ctx.count('n:%d' % int(np.prod(prog['grids'][0]['dims'])))
    for s in prog['stmts']:
        ctx.count('stmt:' + stmt_sig(s))
    if errored:
        ctx.count('expected-error:' + plain[0][-1][1])
    tags = tuple(sorted(set((str(o[1].get('tag')), str(n[1].get('tag'))) for o, n in zip(old[0], new[0])
                            if o[0] != 'E' and n[0] != 'E' and isinstance(o[1], dict) and isinstance(n[1], dict))))
    for t in tags:
        ctx.count('tags old/new:%s/%s' % t)
    div = shaped_divergence(old, new)
    if div is not None:
        k = [(a, b) for a, b in zip(div[1], div[2]) if a != b][0]
        ctx.count('accepted-divergence:shaped-of-%s/%s' % (k[0][0], k[1][0]))
    sig = (label, nst, tuple(stmt_sig(s) for s in prog['stmts']), errored)
    ctx.case({'label': label, 'stmts': [stmt_sig(s) for s in prog['stmts']]} if nst > 4 else None,
             nontrivial_key=sig if nst >= 3 else None)
    return plain, old, new


def _known_key(ctx, key):
    return ctx._known(key) is not None


def run(ctx):
    import types
    ctx.known_key = types.MethodType(_known_key, ctx)
    ctx.rule = ('random array programs (4-15 statements over 1-3 Fields of 1-40 points, scalar / vector / 2x2-tensor, real and complex '
                'dyadic values; arithmetic with broadcasting between scalar / vector / tensor fields, comparisons and boolean logic, exact ufuncs, '
                'reductions (all / last / first axis, keepdims), cumsum/cumprod, sort/argsort/argmax, astype, where/clip, 1-d matmul, field_dot/'
                'field_trace, integer/slice (any step)/fancy/mask indexing, shaped/reshape/ravel, copy, pickle, aliases, and 10 kinds of in-place '
                'statement (x op= e, x[i] = e, x[mask] = e, x[i] op= e, x[mask] op= e, np.op(a,b,out=x), x.real/.imag = e, x.sort(), x.fill(e)) - '
                'all of these are constructs of the Lean model; "extended" programs add 100 operations that are compared differentially only are executed on plain ndarrays (reference), with old-style fields, with new-style fields and - when every '
                'operation is modelled - by both routes of the Lean model. Oracle: old and new must reproduce the reference values, shapes, '
                'dtype classes and exception classes at every statement and in the final read-out of every variable (aliases included); '
                'every elementwise node with a Field operand must return a Field on that grid; copy/pickle must return an independent equal '
                'Field; values derived by indexing/reshape/shaped/real/imag from a variable that is updated in place afterwards are read at the end too '
                '(views must behave alike); every program is run a fourth time with the Field style switched between statements (mixed-style operands, '
                'targets and aliases) against the same reference; .shaped of a value that is a Field under one style only (0-d results, np.where) is '
                'generated on purpose and held to the predicted AttributeError / reference value (accepted divergence, counted). Correspondence: the model\'s '
                'decidable side condition agree? against where the real styles first hand different kinds of object to .shaped; tag (Field+grid / ndarray / scalar), shape, dtype class and values of every observation of each '
                'style against the matching model route. Pipelines: 20 library computations (incl. hcipy._math.fft called directly on four dtypes) under 64 configuration combinations (every pair of switches in all four settings; thorough: the full product of 128 in two of six rounds) '
                'against the default; 8 kinds of Fourier object (MFT 2-D/1-D, FFT 2-D/1-D, FourierFilter, NFT, make_fourier_transform, ZoomFFT) each REUSED over scripted and random call sequences (precision changes, tensor-shape changes, forward/backward) under every relevant switch x field style x backend, every call compared with a fresh object under the same configuration and with the default configuration; NFT / MFT / make_fourier_transform on polar (separated, regular, unstructured) and explicitly or automatically weighted Cartesian grids as input, output or both, under every option combination, forward / backward / transformation matrices against the defining weighted Fourier sum computed by the harness. Non-trivial = at least three statements; distinct by the sequence of statement signatures.')
    ctx.assumptions += ['plain ndarray arithmetic is the reference for the values',
                        'dyadic inputs: results are exact or within 1e-12 of the exact value',
                        'mkl_fft and pyfftw are not installed: those backend names exercise the fall-through only']
    only = sorted((set(EXT) - set(EXT_ALSO_MODELLED)) | (set(XSTMT) - set(XSTMT_ALSO_MODELLED)))
    listed = sorted(n for l in DIFF_ONLY_WHY.values() for n in l)
    if sorted(set(listed)) != only:
        raise MachineryError('operation split out of date: %r' % (sorted(set(only) ^ set(listed)),))
    ctx.extra['operation_split'] = {
        'in_model': len(MODEL_OPS), 'in_model_names': MODEL_OPS,
        'differential_only': len(only), 'differential_only_why': DIFF_ONLY_WHY,
        'extended_spellings_of_modelled_operations': len(EXT_ALSO_MODELLED) + len(XSTMT_ALSO_MODELLED),
    }
    before = snapshot_config()
    try:
        _run(ctx)
    finally:
        after = snapshot_config()
        if after != before:
            raise MachineryError('configuration leaked: %r -> %r' % (before, after))


def _run(ctx):
    rng = ctx.rng
    progs = [(p, 'directed') for p in DIRECTED + _shared_buffer_corpus() + _conversion_corpus()]
    n_core = ctx.scale(1500, 25000)
    n_ext = ctx.scale(1200, 18000)
    for k in range(n_core):
        progs.append((gen_program(rng, ext=False, big=(ctx.tier == 'thorough' and k % 3 == 0)), 'core'))
    for k in range(n_ext):
        progs.append((gen_program(rng, ext=True, big=(ctx.tier == 'thorough' and k % 3 == 0)), 'extended'))
    lines, index, runs = [], [], []
    for prog, label in progs:
        plain, old, new = check_program(ctx, prog, label)
        if not has_ext(prog):
            pl = program_lines(prog)
            index.append((len(runs), len(lines) + len(pl) - 1))
            lines += pl
        runs.append((prog, old, new))
    out = ctx.model(lines)
    for ri, li in index:
        prog, old, new = runs[ri]
        correspondence(ctx, prog, old, new, out[li])

    # pipelines
    default = snapshot_config()
    default = {k: default[k] for k in ('new_style', 'emulate', 'mft_pre', 'mft_alloc', 'nft_pre', 'method')}
    combos = all_combos()
    combos_full = all_combos(full=True)
    names = sorted(_pipelines())
    reps = ctx.scale(1, 6)
    for rep in range(reps):
        for name in names:
            params = {'n': int(rng.choice([8, 9, 12, 16, 17, 24, 32])), 'q': int(rng.integers(1, 5)), 'nairy': int(rng.integers(2, 7)),
                      'tilt': dy(rng, -4, 4), 'odd': int(rng.integers(0, 2))}
            if name in ('vortex', 'pyramid', 'perfect'):
                params['n'] = int(rng.choice([16, 24, 32]))
            use = (combos_full if rep < 2 else combos) if ctx.tier == 'thorough' else combos if name not in ('vortex', 'pyramid', 'atmos', 'perfect') else \
                [combos[int(i)] for i in rng.choice(len(combos), size=16, replace=False)]
            bad = check_pipeline(name, params, use, default)
            ctx.count('pipeline-runs', len(use))
            ctx.count('pipeline:' + name)
            ctx.case(None, nontrivial_key=('pipeline', name, tuple(sorted(params.items()))))
            if bad:
                nf, combo, what = bad[0]
                flipped = sorted(k for k in combo if combo[k] != default[k])
                ctx.violation('pipeline %s %s' % (name, '+'.join(flipped)),
                              'pipeline %s: %s when %s (%d of %d combinations disagree with the default configuration)' % (
                                  name, what, ', '.join('%s=%r' % (k, combo[k]) for k in flipped), len(bad), len(use)),
                              {'pipeline': name, 'params': params, 'combo': combo})
    run_reuse_sweep(ctx, default)
    run_weighted_sweep(ctx, default)
    run_select_tie(ctx)
    run_cache_tie(ctx)
    run_ref_tie(ctx)
    run_mftk_tie(ctx)
    run_dispatch_tie(ctx)


def run_reuse_sweep(ctx, default):
    rng = ctx.rng
    thorough = ctx.tier == 'thorough'
    makers = _reuse_makers()
    for name in sorted(makers):
        relevant = makers[name][1]
        combos = reuse_combos(relevant, thorough)
        scripts = [list(sc) for sc in DIRECTED_SCRIPTS[:(2 if thorough or name in ('mft2d', 'fft', 'filter', 'filter1d') else 1)]]
        for _ in range(ctx.scale(1 if name in ('nft', 'zoom', 'auto', 'mft1d', 'fft1d', 'fftq') else 2, 8)):
            scripts.append(gen_script(rng, int(rng.integers(5, 11)), complex_only=(name in ('filter', 'filter1d'))))
        for script in scripts:
            params = {'n': int(rng.choice([6, 8, 9, 12, 16])), 'q': int(rng.integers(1, 4)), 'nairy': int(rng.integers(2, 6)), 'odd': int(rng.integers(0, 2))}
            bad = check_reuse(name, params, script, combos, default)
            ctx.count('reuse:' + name)
            ctx.count('reuse-calls', len(script) * (2 * len(combos) + 2))
            ctx.count('reuse-precision-changes', sum(1 for a, b in zip(script, script[1:]) if (a[1] in ('complex64', 'float32')) != (b[1] in ('complex64', 'float32'))))
            ctx.count('reuse-tensor-changes', sum(1 for a, b in zip(script, script[1:]) if a[2] != b[2]))
            ctx.case(None, nontrivial_key=('reuse', name, tuple(sorted(params.items())), len(script)))
            if bad:
                nf, suffix, combo, what = bad[0]
                ctx.violation('reuse %s %s' % (name, suffix),
                              'one %s object reused across calls: %s; configuration %s (%d findings over %d configurations)' % (
                                  name, what, ', '.join('%s=%r' % kv for kv in sorted(combo.items())) or 'default', len(bad), len(combos)),
                              {'reuse': name, 'params': params, 'script': script, 'combo': combo})


def replay(ctx, case):
    if 'select' in case:
        obs, bad = check_select(None, case['select'])
        for key, what in bad:
            print('  fails:', key, '-', what)
        return not bad
    if 'select_real_big' in case:
        from hcipy._math import fft as F
        x = _select_input({'func': 'fft2', 'big': True, 'dtype': 'complex64'})
        with config(method=METHODS[0]):
            a = F.fft2(x)
        with config(method=case['select_real_big']):
            b = F.fft2(x)
        return bool(a.dtype == b.dtype and np.max(np.abs(a - b)) <= 2e-4 * np.max(np.abs(a)))
    if 'dispatch' in case:
        bad = [b for b in dispatch_oracle(*dispatch_probe()) if b[0] == case['dispatch']]
        for key, what in bad:
            print('  fails:', key, '-', what)
        return not bad
    if 'ref' in case:
        bad = check_ref(None, case['ref'])
        for key, what in bad:
            print('  fails:', key, '-', what)
        return not bad
    if 'mftk' in case:
        bad = check_mftk(None, case['mftk'])
        for key, what in bad:
            print('  fails:', key, '-', what)
        return not bad
    if 'cache' in case:
        rows, bad = check_cache(None, case['cache'], case['params'], case['pre'], case['alloc'], case['via_config'], case['new_style'], case['script'])
        for key, what in bad:
            print('  fails:', key, '-', what)
        return not bad
    if 'weighted' in case:
        bad = check_weighted(case['weighted'], case['side'], case['transform'], case['params'], [case['combo']])
        for part, combo, what in bad:
            print('  fails:', part, '-', what)
        return not bad
    if 'reuse' in case:
        default = {k: v for k, v in snapshot_config().items()}
        bad = check_reuse(case['reuse'], case['params'], case['script'], [case['combo']] if case['combo'] else [], default)
        for _, suffix, combo, what in bad:
            print('  fails:', suffix, '-', what)
        return not bad
    if 'pipeline' in case:
        default = {k: v for k, v in snapshot_config().items()}
        bad = check_pipeline(case['pipeline'], case['params'], [case['combo']], default)
        for _, combo, what in bad:
            print('  fails:', what)
        return not bad
    prog = case['prog']
    fails = oracle(prog, run_program(prog, 'plain'), run_program(prog, 'old'), run_program(prog, 'new'))
    for key, what in fails:
        print('  fails:', key, '-', what)
    return not fails
