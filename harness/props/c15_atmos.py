"""C15, family ``atmos``: MultiLayerAtmosphere (hcipy/atmosphere/atmospheric_model.py).

Histories on a real MultiLayerAtmosphere made of finite and infinite layers (2..4 layers, any order of heights, ties, layers on the
ground): evolve_until / t-setter (also backwards: refused by an infinite layer in the middle of the fan-out), reset, Cn_squared and
outer_scale setters, operations on the individual layer objects, phase_for, scintillation setter, layer.height changes, layers
re-assignment, forward (lazy rebuild of the element list) and calculate_propagators.

Oracle (independent of the Lean model): own clock for atm.t and every layer.t; bit-equality of every read with a freshly built
atmosphere of the same seeds and the parameters in force driven through the same times (replay after reset); phase_for = sum of the
layers' phase_for, lambda law, sqrt(Cn^2) law against a fresh atmosphere with the original strengths; Cn_squared setter keeps the
shares and reaches the total; the element list used by forward against a brute-force reference (order non-increasing in height,
distances = height differences, sum = highest height, no propagator without scintillation).
Correspondence: `mla ...`, `atm ...`, `elements`, `atmphase` of the driver.
"""
import copy
from fractions import Fraction

import numpy as np

from harness.common import rat, rat_list

WHERE_CODE = {'left': 1, 'right': 2, 'top': 3, 'bottom': 4}
SCALE = 2.0 ** -40
PARTS = [[1], [2], [1, 1], [1, 3], [3, 1], [3, 5], [1, 7], [1, 1, 2], [2, 1, 1], [1, 2, 5], [3, 3, 2], [1, 1, 1, 1], [1, 3, 3, 1],
         [5, 1, 1, 1], [2, 3], [1, 2, 3]]


def mkgrid(nx, ny, dx, dy):
    import hcipy
    return hcipy.make_uniform_grid([nx, ny], [nx * dx, ny * dy])


def rng_state(g):
    s = g.bit_generator.state
    return (s['state']['state'], s['state']['inc'], s.get('has_uint32'), s.get('uinteger'))


def build(case, cn2=None, L0=None, vel=None, scint=None):
    import hcipy
    g = mkgrid(case['nx'], case['ny'], case['dx'], case['dy'])
    layers = []
    for i, l in enumerate(case['layers']):
        c = l['cn2'] if cn2 is None else cn2[i]
        l0 = l['L0'] if L0 is None else L0[i]
        v = np.array(l['vel'] if vel is None else vel[i], dtype=float)
        if l['kind'] == 'finite':
            layers.append(hcipy.FiniteAtmosphericLayer(g, c, l0, v, l['height'], seed=l['seed']))
        else:
            layers.append(hcipy.InfiniteAtmosphericLayer(g, c, l0, v, l['height'], use_interpolation=bool(l.get('interp')), seed=l['seed']))
    return g, layers, hcipy.MultiLayerAtmosphere(layers, scintillation=bool(case['scint'] if scint is None else scint))


def describe_elements(atm, layers, replaced=()):
    """a layer element is named by its position in `layers`; until the next rebuild the list still holds the layer objects that were
    replaced through the setter (`replaced`: the former occupants of the positions, every generation) — the model's stale list names those positions too"""
    import hcipy
    out = []
    for e in atm.elements:
        if isinstance(e, hcipy.FresnelPropagator):
            out.append(('P', Fraction(float(e.distance))))
        else:
            idx = [i for i, l in enumerate(layers) if l is e] or [i for gen in replaced for i, l in enumerate(gen) if l is e]
            out.append(('L', idx[0] if idx else -1))
    return out


def run_atmos(case, layers=None, atm=None, g=None, ops=None, light=False):
    """run the history on the real objects; one observation per op"""
    import hcipy
    if atm is None:
        g, layers, atm = build(case)
    layers = list(layers)
    ext = [[] for _ in layers]

    def instrument(i, l):
        if isinstance(l, hcipy.InfiniteAtmosphericLayer):
            def rec(where=None, _o=l._extrude, _e=ext[i]):
                _e.append(where)
                return _o(where)
            l._extrude = rec
    for i, l in enumerate(layers):
        instrument(i, l)
    wf = hcipy.Wavefront(hcipy.Field(np.ones(g.size), g), 1.0)
    obs = []
    replaced = []
    for op in (case['ops'] if ops is None else ops):
        o = {'op': op, 'status': 'ok'}
        for e in ext:
            del e[:]
        try:
            k = op[0]
            if k == 'evolve':
                atm.evolve_until(op[1])
            elif k == 'sett':
                atm.t = op[1]
            elif k == 'reset':
                atm.reset()
            elif k == 'setcn2':
                atm.Cn_squared = op[1]
            elif k == 'setl0':
                atm.outer_scale = op[1]
            elif k == 'direct':
                l = layers[op[1]]
                if op[2] == 'evolve':
                    l.evolve_until(op[3])
                elif op[2] == 'reset':
                    l.reset(make_independent_realization=bool(op[3]))
                elif op[2] == 'setcn2':
                    l.Cn_squared = op[3]
                elif op[2] == 'setl0':
                    l.L0 = op[3]
            elif k == 'read':
                ph = atm.phase_for(op[1])
                o['phase'] = np.array(ph, dtype=float)
                o['parts'] = [np.array(l.phase_for(op[1]), dtype=float) for l in layers]
                o['parts1'] = [np.array(l.phase_for(1), dtype=float) for l in layers]
            elif k == 'setscint':
                atm.scintillation = bool(op[1])
            elif k == 'seth':
                layers[op[1]].height = op[2]
            elif k == 'relayers':
                atm.layers = list(atm.layers)
            elif k == 'swap':
                # new layers with the same seeds (and the settings of the layers they replace) assigned through the setter
                fresh = []
                for spec, l in zip(case['layers'], layers):
                    if spec['kind'] == 'finite':
                        fresh.append(hcipy.FiniteAtmosphericLayer(g, l.Cn_squared, l.L0, np.array(l.velocity, dtype=float), l.height, seed=spec['seed']))
                    else:
                        fresh.append(hcipy.InfiniteAtmosphericLayer(g, l.Cn_squared, l.L0, np.array(l.velocity, dtype=float), l.height,
                                                                    use_interpolation=bool(spec.get('interp')), seed=spec['seed']))
                replaced.append(list(layers))        # every generation: the list may survive several assignments without a rebuild
                for i, l in enumerate(fresh):
                    layers[i] = l
                    instrument(i, l)
                atm.layers = list(fresh)
            elif k == 'rewrap':
                # a new atmosphere around the same (possibly evolved) layer objects
                atm = hcipy.MultiLayerAtmosphere(list(layers), scintillation=bool(atm.scintillation))
            elif k == 'forward':
                atm.forward(wf) if op[1] else atm.backward(wf)
            elif k == 'calc':
                atm.calculate_propagators()
            else:
                raise RuntimeError('unknown op %r' % (op,))
        except ValueError:
            o['status'] = 'value'
        except Exception as e:  # noqa
            o['status'] = 'other:' + type(e).__name__ + ':' + str(e)[:80]
        try:
            o['t'] = float(atm.t)
            o['total'] = float(atm.Cn_squared)
            o['dirty'] = bool(atm._dirty)
            o['scint'] = bool(atm.scintillation)
            o['elements'] = describe_elements(atm, layers, replaced)
            o['heights'] = [float(l.height) for l in layers]
            o['layers'] = []
            for i, l in enumerate(layers):
                d = {'center': [float(x) for x in np.asarray(l.center).ravel()], 't': float(l.t), 'cn2': float(l.Cn_squared),
                     'L0': float(l.L0), 'vel': [float(x) for x in np.asarray(l.velocity).ravel()]}
                if not light:
                    d['rng'] = rng_state(l.rng)
                    d['orig'] = rng_state(l._original_rng)
                    d['ext'] = list(ext[i])
                    if isinstance(l, hcipy.InfiniteAtmosphericLayer):
                        d['raw'] = np.array(l._achromatic_screen, dtype=float).tobytes()
                o['layers'].append(d)
        except Exception as e:  # noqa
            o['observe_error'] = type(e).__name__ + ':' + str(e)[:80]
        obs.append(o)
    return obs


def reference_elements(heights, scint):
    """brute force: what the light must meet"""
    order = sorted(range(len(heights)), key=lambda i: -heights[i])      # stable
    out = []
    for n, i in enumerate(order):
        out.append(('L', i))
        if scint and n + 1 < len(order):
            out.append(('P', Fraction(heights[i]) - Fraction(heights[order[n + 1]])))
    if scint and heights[order[-1]] > 0:
        out.append(('P', Fraction(heights[order[-1]])))
    return out


def close(a, b, tol=1e-9):
    a = np.asarray(a, dtype=float)
    b = np.asarray(b, dtype=float)
    return a.shape == b.shape and bool(np.all(np.abs(a - b) <= tol * max(1.0, float(np.abs(b).max()))))


def judge_atmos(case, obs=None):
    """the property on the real observations; returns (violations, obs, counts)"""
    bad = []
    counts = {}

    def cnt(k, n=1):
        counts['atmos:' + k] = counts.get('atmos:' + k, 0) + n

    def fail(key, what):
        if not any(b[0] == key for b in bad):
            bad.append((key, what))
    if obs is None:
        obs = run_atmos(case)
    n = len(case['layers'])
    clock = 0.0            # the time every layer and the atmosphere must report; None = unknown (after a refused fan-out / a direct op)
    seq = []               # successful evolution times since the last reset
    clean = True           # no setter / direct op since the last reset: a fresh atmosphere is a reference
    indep = False
    cn2 = [l['cn2'] for l in case['layers']]
    L0 = [l['L0'] for l in case['layers']]
    known_heights = [l['height'] for l in case['layers']]      # the heights at the last event that makes the atmosphere look
    scint = bool(case['scint'])
    pending = False
    any_inf = any(l['kind'] == 'infinite' for l in case['layers'])
    # per layer object (round 6): its own clock, the evolution times it has been given since its last reset, whether a fresh stand-alone
    # layer of the same seed is a reference for it (no setter since its last reset, no independent realisation, no refused fan-out)
    lclock = [0.0] * n
    lseq = [[] for _ in range(n)]
    lclean = [True] * n
    lindep = [False] * n
    stored = 0.0           # what the atmosphere itself last recorded as its time (own bookkeeping of the oracle; None = unknown)
    for k, o in enumerate(obs):
        op = o['op']
        where = 'op %d %r' % (k, op)
        if 'observe_error' in o:
            fail('atm-observe', '%s: the state could not be read: %s' % (where, o['observe_error']))
            break
        if o['status'].startswith('other'):
            fail('atm-exception', '%s raised %s' % (where, o['status']))
            break
        kind = op[0]
        if kind in ('evolve', 'sett'):
            cnt('evolve_until' if kind == 'evolve' else 't setter')
            back = any(op[1] < l['t'] for l, spec in zip(obs[k - 1]['layers'] if k else [{'t': 0.0}] * n, case['layers']) if spec['kind'] == 'infinite')
            if all(c is not None for c in lclock):
                # the same from the oracle's own clocks
                back2 = any(op[1] < c for c, spec in zip(lclock, case['layers']) if spec['kind'] == 'infinite')
                if back2 != (o['status'] == 'value'):
                    fail('atm-evolve-refused' if not back2 else 'atm-evolve-backwards',
                         '%s: %s; the infinite layers are at %r' % (where, 'raised ValueError' if not back2 else 'a backwards time was accepted',
                                                                     [c for c, spec in zip(lclock, case['layers']) if spec['kind'] == 'infinite']))
                if stored is not None and op[1] == stored and any(c != stored for c in lclock):
                    cnt('evolve_until(t) with t = the atmosphere\'s own time while a layer is at another time (%s)' % ('refused' if back2 else 'accepted'))
                elif stored is not None and op[1] == stored:
                    cnt('evolve_until(t) with t = the atmosphere\'s own time, layers in step')
            if o['status'] == 'value':
                cnt('refused fan-out (backwards time at an infinite layer)')
                if not back:
                    fail('atm-evolve-refused', '%s raised ValueError although no infinite layer is ahead of that time' % where)
                clock = None
                clean = False
                lclock = [None] * n
                lclean = [False] * n
                stored = None
            else:
                if back:
                    fail('atm-evolve-backwards', '%s: a backwards time was accepted by an infinite layer' % where)
                clock = op[1]
                seq.append(op[1])
                lclock = [op[1]] * n
                for q in lseq:
                    q.append(op[1])
                stored = op[1]
        elif kind == 'reset':
            cnt('reset')
            clock = 0.0
            seq = []
            clean = True
            lclock = [0.0] * n
            lseq = [[] for _ in range(n)]
            lclean = [True] * n
            stored = 0.0
            for i, l in enumerate(o['layers']):
                if any(c != 0 for c in l['center']):
                    fail('atm-reset-fanout', '%s: layer %d is not back at the origin (center %r)' % (where, i, l['center']))
        elif kind == 'setcn2':
            cnt('Cn_squared setter')
            old = float(np.sum(cn2))
            cn2 = [c / old * op[1] for c in cn2]
            clean = False
            lclean = [False] * n
            if abs(o['total'] - op[1]) > 1e-12 * abs(op[1]):
                fail('atm-setter', '%s: atm.Cn_squared reads %r afterwards' % (where, o['total']))
        elif kind == 'setl0':
            cnt('outer_scale setter')
            L0 = [op[1]] * n
            clean = False
            lclean = [False] * n
        elif kind == 'direct':
            cnt('operation on a layer object')
            clean = False
            j = op[1]
            if op[2] == 'setcn2':
                cn2[op[1]] = op[3]
                lclean[j] = False
            elif op[2] == 'setl0':
                L0[op[1]] = op[3]
                lclean[j] = False
            elif op[2] == 'reset':
                indep = indep or bool(op[3])
                clock = None
                if o['status'] != 'ok':
                    fail('atm-layer-reset', '%s raised %s' % (where, o['status']))
                lclock[j] = 0.0
                lseq[j] = []
                lclean[j] = True
                lindep[j] = lindep[j] or bool(op[3])
                cnt('layer.reset() behind the atmosphere')
            elif op[2] == 'evolve':
                clock = None
                if lclock[j] is not None:
                    refuse = case['layers'][j]['kind'] == 'infinite' and op[3] < lclock[j]
                    if refuse != (o['status'] == 'value'):
                        fail('atm-layer-evolve', '%s: %s; the layer is at %r' % (where, 'raised ValueError' if not refuse else 'a backwards time was accepted', lclock[j]))
                    if not refuse:
                        lclock[j] = op[3]
                        lseq[j].append(op[3])
                cnt('layer.evolve_until() behind the atmosphere')
        elif kind == 'swap':
            cnt('new same-seed layers assigned through the layers setter')
            pending = True
            clock = None
            clean = False
            lclock = [0.0] * n
            lseq = [[] for _ in range(n)]
            lclean = [True] * n
            lindep = [False] * n
            indep = False
        elif kind == 'rewrap':
            cnt('new atmosphere around the existing layer objects')
            pending = False
            known_heights = list(o['heights'])
            clock = None
            clean = False
            stored = 0.0
        elif kind == 'setscint':
            cnt('scintillation setter (%s)' % ('other value' if bool(op[1]) != scint else 'same value'))
            pending = pending or bool(op[1]) != scint
            scint = bool(op[1])
        elif kind == 'seth':
            cnt('layer.height changed')
        elif kind == 'relayers':
            cnt('layers re-assigned')
            pending = True
        if kind in ('forward', 'calc') or (kind == 'relayers'):
            pass
        if kind == 'calc' or (kind == 'forward' and pending):
            known_heights = list(o['heights'])
            pending = False
        # ---- clauses on every observation
        for i, (l, c, l0) in enumerate(zip(o['layers'], cn2, L0)):
            if abs(l['cn2'] - c) > 1e-12 * abs(c) or l['L0'] != l0:
                fail('atm-setter', '%s: layer %d has Cn_squared %r, L0 %r; expected %r, %r (shares of the total kept)' % (where, i, l['cn2'], l['L0'], c, l0))
        if clock is not None:
            if o['t'] != clock:
                fail('atm-time', '%s: atm.t = %r, the atmosphere is at time %r' % (where, o['t'], clock))
            for i, l in enumerate(o['layers']):
                if l['t'] != clock:
                    fail('atm-time-fanout', '%s: layer %d reports t = %r, the atmosphere is at %r' % (where, i, l['t'], clock))
        for i, l in enumerate(o['layers']):
            if lclock[i] is not None and l['t'] != lclock[i]:
                fail('atm-layer-time', '%s: layer %d reports t = %r; it was last brought to %r (through the atmosphere or directly)' % (where, i, l['t'], lclock[i]))
        if kind == 'forward' and o['status'] == 'ok':
            cnt('propagations (forward/backward)')
            el = o['elements']
            cnt('element lists with %d layers, scintillation %s' % (n, 'on' if scint else 'off'))
            if known_heights == o['heights']:
                ref = reference_elements(o['heights'], scint)
                hs = [o['heights'][j] for t, j in el if t == 'L']
                ds = [d for t, d in el if t == 'P']
                if sorted(j for t, j in el if t == 'L') != list(range(n)):
                    fail('atm-elements-layers', '%s: the element list does not contain every layer exactly once: %r' % (where, el))
                elif any(a < b for a, b in zip(hs, hs[1:])):
                    fail('atm-elements-order', '%s: layers are not met in order of non-increasing height: heights %r' % (where, hs))
                elif not scint and ds:
                    fail('atm-elements-no-scintillation', '%s: propagators without scintillation: %r' % (where, el))
                elif scint and min(o['heights']) >= 0 and sum(ds) != Fraction(max(o['heights'])):
                    fail('atm-elements-distance-sum', '%s: propagation distances %r sum to %r, highest layer at %r' % (where, [float(d) for d in ds], float(sum(ds)), max(o['heights'])))
                elif [e for e in el if e[0] == 'P'] != [e for e in ref if e[0] == 'P'] or [o['heights'][j] for t, j in el if t == 'L'] != [o['heights'][j] for t, j in ref if t == 'L']:
                    fail('atm-elements-distances', '%s: elements %r, expected %r' % (where, el, ref))
                if len(set(o['heights'])) < n:
                    cnt('element lists with tied heights')
                if min(o['heights']) == 0:
                    cnt('element lists with a layer on the ground')
            else:
                cnt('element lists not judged (layer.height changed behind the atmosphere)')
        if kind == 'read':
            if scint:
                cnt('reads refused (scintillation on)')
                if o['status'] != 'value':
                    fail('atm-read-scintillation', '%s: phase_for with scintillation did not raise ValueError' % where)
                continue
            if o['status'] != 'ok':
                fail('atm-read', '%s raised ValueError' % where)
                continue
            cnt('reads')
            lam = op[1]
            if not close(o['phase'], np.sum(o['parts'], axis=0)):
                fail('atm-phase-sum', '%s: atm.phase_for is not the sum of the layers\' phase_for' % where)
            if not close(o['phase'] * lam, np.sum(o['parts1'], axis=0)):
                fail('atm-wavelength', '%s: phase_for(%r)*%r differs from the sum of the achromatic screens' % (where, lam, lam))
            if not (clean and not indep and clock is not None):
                # the layers are not (known to be) in step, or something was changed behind the atmosphere: every layer object whose own
                # history is known is compared, bit for bit, with a stand-alone layer freshly built from the same seed and the
                # parameters in force, given the same evolution times
                for i, spec in enumerate(case['layers']):
                    if lclock[i] is None or not lclean[i] or lindep[i]:
                        cnt('layer screens not judged (setter / independent realisation / refused fan-out since its reset)')
                        continue
                    cnt('layer screens compared with a fresh stand-alone layer of the same seed')
                    if lseq[i] and any(c != lclock[i] for c in lclock):
                        cnt('layer screens compared with a fresh stand-alone layer, layers at different times')
                    sub = dict(case, layers=[dict(spec, cn2=o['layers'][i]['cn2'], L0=o['layers'][i]['L0'])])
                    g, fl, fa = build(sub, scint=False)
                    try:
                        for t in lseq[i]:
                            fl[0].evolve_until(t)
                        ref = np.array(fl[0].phase_for(1), dtype=float)
                    except Exception as e:  # noqa
                        fail('atm-layer-replay', '%s: the fresh reference layer %d refused the times %r: %s' % (where, i, lseq[i], e))
                        continue
                    if not np.array_equal(ref, o['parts1'][i]):
                        fail('atm-layer-replay', '%s: layer %d (%s, seed %d) differs from a freshly built layer with the same seed and parameters evolved '
                             'through %r (max dev %.3g of %.3g)' % (where, i, spec['kind'], spec['seed'], lseq[i], float(np.abs(ref - o['parts1'][i]).max()),
                                                                     float(np.abs(ref).max())))
            if clean and not indep and clock is not None:
                cnt('reads compared with a fresh atmosphere')
                if not seq:
                    cnt('reads compared with a fresh atmosphere right after a reset / at t = 0')
                g, fl, fa = build(case, cn2=[l['cn2'] for l in o['layers']], L0=[l['L0'] for l in o['layers']], scint=False)
                fo = run_atmos(case, fl, fa, g, ops=[['evolve', t] for t in seq] + [['read', lam]], light=True)[-1]
                if fo['status'] != 'ok' or not np.array_equal(fo['phase'], o['phase']):
                    fail('atm-replay', '%s: differs from a freshly built atmosphere (same seeds, parameters in force) evolved through %r' % (where, seq))
                ratio = [np.sqrt(l['cn2'] / s['cn2']) for l, s in zip(o['layers'], case['layers'])]
                if any(r != 1 for r in ratio) and all(l['L0'] == s['L0'] for l, s in zip(o['layers'], case['layers'])):
                    cnt('reads compared with sqrt(Cn^2) times the original atmosphere')
                    g, fl, fa = build(case, scint=False)
                    f0 = run_atmos(case, fl, fa, g, ops=[['evolve', t] for t in seq] + [['read', lam]], light=True)[-1]
                    if f0['status'] != 'ok' or not close(o['phase'], np.sum([r * p for r, p in zip(ratio, f0['parts'])], axis=0)):
                        fail('atm-strength', '%s: the phase is not sqrt(Cn^2 ratio) times the phase of the atmosphere with the original strengths' % where)
    return bad, obs, counts


# ---------------------------------------------------------------------------------------------
# model mirror

def atmos_lines(case, obs):
    lines = ['mla begin']
    want = [('skip', None)]
    for l in case['layers']:
        if l['kind'] == 'finite':
            lines.append('mla addfin %d %d %s %s %s %s %d' % (case['nx'], case['ny'], rat(l['vel'][0]), rat(l['vel'][1]), rat(l['cn2']), rat(l['L0']), l['seed']))
        else:
            lines.append('mla addinf %d %d %s %s %s %s %s %s %d' % (case['nx'], case['ny'], rat(case['dx']), rat(case['dy']), rat(l['vel'][0]), rat(l['vel'][1]),
                                                                   rat(l['cn2']), rat(l['L0']), l['seed']))
        want.append(('skip', None))
    lines.append('mla build')
    want.append(('mla0', None))
    lines.append('atm new %d %s' % (int(bool(case['scint'])), rat_list([l['height'] for l in case['layers']])))
    want.append(('atm0', None))
    for k, o in enumerate(obs):
        op = o['op']
        kind = op[0]
        if 'observe_error' in o or o['status'].startswith('other'):
            break
        if kind in ('evolve', 'sett'):
            lines.append('mla evolve %s' % rat(op[1])); want.append(('mla', k))
        elif kind == 'reset':
            lines.append('mla reset'); want.append(('mla', k))
        elif kind == 'setcn2':
            lines.append('mla setcn2 %s' % rat(op[1])); want.append(('mla', k))
        elif kind == 'setl0':
            lines.append('mla setl0 %s' % rat(op[1])); want.append(('mla', k))
        elif kind == 'direct':
            arg = str(int(op[3])) if op[2] == 'reset' else rat(op[3])
            lines.append('mla direct %d %s %s' % (op[1], op[2], arg)); want.append(('mla', k))
        elif kind == 'setscint':
            lines.append('atm setscint %d' % int(bool(op[1]))); want.append(('atm', k))
        elif kind == 'seth':
            lines.append('atm seth %d %s' % (op[1], rat(op[2]))); want.append(('atm', k))
        elif kind == 'relayers':
            lines.append('atm setlayers %s' % rat_list(o['heights'])); want.append(('atm', k))
        elif kind == 'swap':
            lines.append('mla swap'); want.append(('mla', k))
            lines.append('atm setlayers %s' % rat_list(o['heights'])); want.append(('atm', k))
        elif kind == 'rewrap':
            lines.append('mla rewrap'); want.append(('mla', k))
            lines.append('atm new %d %s' % (int(o['scint']), rat_list(o['heights']))); want.append(('atm', k))
        elif kind == 'forward':
            lines.append('atm prop'); want.append(('atm', k))
            lines.append('elements %d %s' % (int(o['scint']), rat_list(o['heights']))); want.append(('elements', k))
        elif kind == 'calc':
            lines.append('atm calc'); want.append(('atm', k))
        elif kind == 'read' and o['status'] == 'ok':
            for px in sorted(set([0, len(o['phase']) // 2, len(o['phase']) - 1])):
                lines.append('atmphase %s %s' % (rat(op[1]), rat_list([float(p[px]) for p in o['parts1']]))); want.append(('phase', (k, px)))
    return ['C15 ' + l for l in lines], want


def show_elements(el):
    return ','.join(('L%d' % x) if t == 'L' else 'P' + rat(x) for t, x in el)


def parse_elements(s):
    return [('L', int(t[1:])) if t[0] == 'L' else ('P', Fraction(t[1:])) for t in s.split(',') if t]


def canon_elements(el, heights):
    """np.argsort(-heights) is not a stable sort (vectorised quicksort): layers of equal height come in either order. The layers of
    each group of equal heights are put in increasing index order, in the slots the group occupies."""
    el = list(el)
    slots = [i for i, e in enumerate(el) if e[0] == 'L']
    k = 0
    while k < len(slots):
        m = k
        while m + 1 < len(slots) and 0 <= el[slots[m + 1]][1] < len(heights) and 0 <= el[slots[k]][1] < len(heights) and \
                heights[el[slots[m + 1]][1]] == heights[el[slots[k]][1]]:
            m += 1
        idx = sorted(el[slots[j]][1] for j in range(k, m + 1))
        for j, v in zip(range(k, m + 1), idx):
            el[slots[j]] = ('L', v)
        k = m + 1
    return el


def parse_kv(s):
    return dict(t.split('=', 1) for t in s.split() if '=' in t)


def compare_atmos(ctx, case, obs, want, out):
    n = len(case['layers'])
    rngmap = [({}, {}) for _ in range(n)]     # per layer: model position <-> real generator state
    scrmap = [{} for _ in range(n)]           # per layer: model screen fingerprint -> real bytes
    hist = [0] * n
    built = [[l['height'] for l in case['layers']]]     # the heights at the last rebuild of the element list
    exact = [True]       # the model's Cn^2 shares (exact rationals) are the floats of the real layers: screens can be identified

    def dis(detail, key):
        ctx.disagree('C15 atmos', '%s (case seed layers=%r ops=%r)' % (detail, [l['kind'] for l in case['layers']], case['ops'][:12]), key=key)

    def cmp_mla(resp, o, k):
        parts = resp.split(' ;; ')
        head = parts[0]
        status = 'value' if head.startswith('err value') else ('ok' if head.startswith('ok') else head)
        real_status = o['status'] if o is not None else 'ok'
        if status != real_status:
            dis('op %s: model status %r, real %r' % (k, head[:40], real_status), 'atmos-status')
            return False
        kv = parse_kv(head)
        real = o if o is not None else None
        if real is not None:
            if Fraction(kv['t']) != Fraction(real['t']):
                dis('op %s: model atm.t=%s real %r' % (k, kv['t'], real['t']), 'atmos-t')
            if abs(float(Fraction(kv['total'])) - real['total']) > 1e-9 * abs(real['total']):
                dis('op %s: model total Cn^2=%s real %r' % (k, kv['total'], real['total']), 'atmos-total')
        if len(parts) - 1 != n:
            dis('op %s: model has %d layers' % (k, len(parts) - 1), 'atmos-layers')
            return False
        if real is None:
            return True
        for i, (p, l) in enumerate(zip(parts[1:], real['layers'])):
            kv = parse_kv(p)
            mc = [Fraction(x) for x in kv['c'].strip('[]').split(',')]
            if mc != [Fraction(x) for x in l['center']] or Fraction(kv['t']) != Fraction(l['t']):
                dis('op %s layer %d: model c=%s t=%s real %r %r' % (k, i, kv['c'], kv['t'], l['center'], l['t']), 'atmos-layer-bookkeeping')
            mp = [Fraction(x) for x in kv['par'].strip('[]').split(',')]
            if abs(float(mp[0]) - l['cn2']) > 1e-9 * abs(l['cn2']) or float(mp[1]) != l['L0']:
                dis('op %s layer %d: model par=%s real %r %r' % (k, i, kv['par'], l['cn2'], l['L0']), 'atmos-layer-par')
            if mp[0] != Fraction(l['cn2']):
                exact[0] = False
            # generator states: same model position <=> same real state (per layer)
            for name in ('rng', 'orig'):
                a, b = rngmap[i]
                m, r = kv[name], l[name]
                if a.setdefault(m, r) != r or b.setdefault(r, m) != m:
                    dis('op %s layer %d: generator %s: model position %s / real state do not correspond one to one' % (k, i, name, m), 'atmos-rng')
            if 'hist' in kv:
                if o['op'][0] in ('reset', 'swap') or (o['op'][0] == 'direct' and o['op'][2] == 'reset' and o['op'][1] == i):
                    hist[i] = 0
                for w in l['ext']:
                    hist[i] = hist[i] * 5 + WHERE_CODE[w]
                if int(kv['hist']) != hist[i]:
                    dis('op %s layer %d: model extrusion code %s, real extrusions give %d (%r)' % (k, i, kv['hist'], hist[i], l['ext']), 'atmos-extrusions')
                if exact[0] and scrmap[i].setdefault(kv['scr'], l['raw']) != l['raw']:
                    dis('op %s layer %d: the model shows a screen it has shown before, the real screen differs' % (k, i), 'atmos-screen')
        ctx.traces_validated += 1
        return True

    for (kind, ref), resp in zip(want, out):
        if kind == 'skip':
            if not resp.startswith('ok'):
                dis('setup answered %r' % resp, 'atmos-setup')
            continue
        if kind == 'mla0':
            cmp_mla(resp, None, 'build')
            continue
        if kind == 'mla':
            cmp_mla(resp, obs[ref], ref)
            continue
        if kind in ('atm0', 'atm'):
            o = obs[ref] if kind == 'atm' else None
            kv = parse_kv(resp)
            if not resp.startswith('ok') or 'el' not in kv:
                dis('op %s: model answered %r' % (ref, resp), 'atmos-elements-status')
                continue
            if o is None:
                continue
            if o['status'] != 'ok':
                dis('op %s: real raised %s' % (ref, o['status']), 'atmos-elements-status')
                continue
            if o['op'][0] in ('calc', 'rewrap') or (o['op'][0] == 'forward' and obs[ref - 1]['dirty'] if ref else False):
                built[0] = list(o['heights'])
            if kv['dirty'] != str(int(o['dirty'])) or kv['scint'] != str(int(o['scint'])) or \
                    canon_elements(parse_elements(kv['el']), built[0]) != canon_elements(o['elements'], built[0]):
                dis('op %s %r: model dirty=%s scint=%s el=%s; real dirty=%d scint=%d el=%s' % (ref, o['op'], kv['dirty'], kv['scint'], kv['el'], o['dirty'], o['scint'],
                                                                                             show_elements(o['elements'])), 'atmos-elements')
            ctx.traces_validated += 1
            continue
        if kind == 'elements':
            o = obs[ref]
            if o['status'] != 'ok' or o['dirty']:
                continue
            kv = parse_kv(resp)
            order = [j for t, j in o['elements'] if t == 'L']
            total = sum([d for t, d in o['elements'] if t == 'P'], Fraction(0))
            # (the real list may be stale after a height change: compared only when the atmosphere has looked at these heights)
            toks = resp.split()
            stale = len(toks) < 2 or canon_elements(o['elements'], o['heights']) != canon_elements(parse_elements(toks[1]), o['heights'])
            if not stale:
                morder = [int(x) for x in kv.get('order', '[]').strip('[]').split(',') if x]
                if sorted(morder) != sorted(order) or [o['heights'][j] for j in morder] != [o['heights'][j] for j in order] or \
                        Fraction(kv.get('sum', '-1')) != total:
                    dis('op %s: model order=%s sum=%s, real %r %s' % (ref, kv.get('order'), kv.get('sum'), order, total), 'atmos-elements-sum')
                ctx.traces_validated += 1
            continue
        if kind == 'phase':
            k, px = ref
            o = obs[k]
            if not resp.startswith('ok '):
                dis('op %s: atmphase answered %r' % (k, resp), 'atmos-phase')
                continue
            v = float(Fraction(resp.split()[1]))
            if abs(v - o['phase'][px]) > 1e-9 * max(1.0, float(np.abs(o['phase']).max())):
                dis('op %s pixel %d: model sum of a_i/lambda = %r, atm.phase_for = %r' % (k, px, v, float(o['phase'][px])), 'atmos-phase')
            ctx.traces_validated += 1


# ---------------------------------------------------------------------------------------------
# generator

def gen_atmos_case(rng, big):
    hi = 12 if big else 9
    nx = int(rng.integers(4, hi))
    ny = nx if rng.random() < 0.4 else int(rng.integers(4, hi))
    dx = float(2.0 ** int(rng.integers(-3, 1)))
    dy = dx if rng.random() < 0.6 else float(2.0 ** int(rng.integers(-3, 1)))
    parts = PARTS[int(rng.integers(len(PARTS)))]
    if rng.random() < 0.15:
        parts = [int(x) for x in rng.integers(1, 8, size=int(rng.integers(2, 5)))]      # total not a power of two: inexact shares
    n = len(parts)
    mix = rng.random()
    heights_pool = [0.0, 0.0, 512.0, 1024.0, 1024.0, 1536.5, 2048.0, 4096.25, 8192.0]
    layers = []
    for i, a in enumerate(parts):
        kind = 'finite' if (mix < 0.2 or (mix < 0.8 and rng.random() < 0.5)) else 'infinite'
        px = int(rng.choice([0, 1, 1, 2, -1, -2]))
        py = int(rng.choice([0, 0, 1, 2, -1]))
        layers.append({'kind': kind, 'vel': [px * dx, py * dy], 'cn2': a * SCALE, 'L0': float(rng.choice([5.0, 10.0, 20.0])),
                       'height': float(heights_pool[int(rng.integers(len(heights_pool)))]), 'seed': int(rng.integers(1, 10 ** 6)),
                       'interp': bool(rng.random() < 0.3)})
    if rng.random() < 0.06:
        layers[int(rng.integers(n))]['height'] = -256.0
    case = {'kind': 'atmos', 'nx': nx, 'ny': ny, 'dx': dx, 'dy': dy, 'layers': layers, 'scint': bool(rng.random() < 0.3), 'ops': []}
    ops = case['ops']
    t = 0.0
    scint = case['scint']
    times = []

    def read():
        ops.append(['read', float(rng.choice([1.0, 0.5, 2.0, 2.0 ** -20]))])
    for _ in range(int(rng.integers(8, 16 if not big else 24))):
        r = rng.random()
        if r < 0.30:
            if rng.random() < 0.12 and t > 0:
                tb = float(rng.integers(0, int(t * 4))) / 4.0
                ops.append([str(rng.choice(['evolve', 'sett'])), tb])            # backwards
                if not any(l['kind'] == 'infinite' for l in layers):
                    t = tb
                else:
                    ops.append(['reset']); t = 0.0
            else:
                t = t + float(rng.choice([0.25, 0.5, 1.0, 1.0, 2.0, 3.0, 0.0]))
                ops.append([str(rng.choice(['evolve', 'evolve', 'sett'])), t])
                times.append(t)
            if rng.random() < 0.6 and not scint:
                read()
        elif r < 0.42:
            ops.append(['reset']); t = 0.0
            if not scint and rng.random() < 0.6:
                read()
            if times and rng.random() < 0.7:
                for tt in times[:3]:
                    if tt >= t:
                        ops.append(['evolve', tt]); t = tt
                        if not scint:
                            read()
            times = []
        elif r < 0.50:
            ops.append(['setcn2', float(2.0 ** int(rng.integers(0, 6))) * SCALE])
            if rng.random() < 0.7:
                ops.append(['reset']); t = 0.0
        elif r < 0.56:
            ops.append(['setl0', float(rng.choice([5.0, 10.0, 20.0, 40.0]))])
            if rng.random() < 0.7:
                ops.append(['reset']); t = 0.0
        elif r < 0.64:
            j = int(rng.integers(n))
            w = rng.random()
            if w < 0.3:
                ops.append(['direct', j, 'evolve', t + float(rng.choice([0.5, 1.0, -0.5]))])
            elif w < 0.6:
                ops.append(['direct', j, 'reset', bool(rng.random() < 0.4)])
            elif w < 0.8:
                ops.append(['direct', j, 'setcn2', float(rng.integers(1, 9)) * SCALE])
            else:
                ops.append(['direct', j, 'setl0', float(rng.choice([5.0, 10.0, 40.0]))])
            if rng.random() < 0.6:
                ops.append(['reset']); t = 0.0
        elif r < 0.72:
            scint = bool(rng.random() < 0.5)
            ops.append(['setscint', scint])
            if rng.random() < 0.3:
                ops.append(['setscint', scint])
        elif r < 0.78:
            ops.append(['seth', int(rng.integers(n)), float(heights_pool[int(rng.integers(len(heights_pool)))])])
            if rng.random() < 0.7:
                ops.append(['relayers'])
        elif r < 0.81:
            ops.append(['relayers'])
        elif r < 0.84:
            ops.append(['calc'])
        elif r < 0.94:
            ops.append(['forward', bool(rng.random() < 0.7)])
        else:
            if not scint:
                read()
            else:
                ops.append(['read', 1.0])
    ops.append(['forward', True])
    if not scint:
        read()
    return case


STALE_MOTIFS = ('layer-reset', 'swap', 'layer-ahead', 'layer-behind', 'rewrap-zero', 'reset-layer-evolve-zero', 'layer-setter', 'same-time-twice',
                'rewrap-same-time')


def gen_stale_case(rng, big):
    """repeated / equal target times after out-of-band changes: the atmosphere is asked for EXACTLY the time it last recorded (or 0
    right after construction / reset()) while one or more layer objects are somewhere else — a layer reset or evolved directly, new
    same-seed layers assigned through the setter, a new atmosphere built around layers that have already been evolved — or while a
    parameter was changed in between.  Several motifs per case, reads after each."""
    case = gen_atmos_case(rng, big)
    n = len(case['layers'])
    case['scint'] = False
    ops = case['ops'] = []
    case['family'] = 'stale-clock'
    case['motifs'] = []
    t = 0.0                          # the time the atmosphere has recorded
    lt = [0.0] * n                   # where the layer objects are
    inf = [l['kind'] == 'infinite' for l in case['layers']]

    def read():
        ops.append(['read', float(rng.choice([1.0, 1.0, 0.5, 2.0]))])

    def evolve(x):
        ops.append([str(rng.choice(['evolve', 'evolve', 'sett'])), x])
        return not any(i and x < c for i, c in zip(inf, lt))
    for _ in range(int(rng.integers(2, 5 if not big else 8))):
        m = str(rng.choice(STALE_MOTIFS))
        j = int(rng.integers(n))
        if t == 0.0 and m not in ('rewrap-zero', 'reset-layer-evolve-zero') and rng.random() < 0.8:
            t = float(rng.choice([0.25, 0.5, 1.0, 2.0, 3.0]))
            if evolve(t):
                lt = [t] * n
            if rng.random() < 0.5:
                read()
        case['motifs'].append(m)
        if m == 'layer-reset':
            for jj in set([j] + ([int(rng.integers(n))] if rng.random() < 0.3 else [])):
                ops.append(['direct', jj, 'reset', False]); lt[jj] = 0.0
            if rng.random() < 0.3:
                read()
        elif m == 'swap':
            ops.append(['swap']); lt = [0.0] * n
            if rng.random() < 0.3:
                read()
        elif m == 'layer-ahead':
            x = t + float(rng.choice([0.25, 1.0, 2.0]))
            ops.append(['direct', j, 'evolve', x]); lt[j] = x
        elif m == 'layer-behind':
            x = float(rng.integers(0, int(t * 4) + 1)) / 4.0 if t > 0 else 0.0
            ops.append(['direct', j, 'evolve', x])
            if not (inf[j] and x < lt[j]):
                lt[j] = x
        elif m == 'rewrap-zero':
            # evolve some layers directly, wrap them in a new atmosphere, ask for t = 0
            for jj in range(n):
                if rng.random() < 0.6 or jj == j:
                    x = lt[jj] + float(rng.choice([0.5, 1.0, 2.0]))
                    ops.append(['direct', jj, 'evolve', x]); lt[jj] = x
            ops.append(['rewrap']); t = 0.0
        elif m == 'rewrap-same-time':
            ops.append(['rewrap'])
            if evolve(0.0):
                lt = [0.0] * n
            if rng.random() < 0.5:
                read()
            t_new = max(lt) + float(rng.choice([0.0, 0.5, 1.0]))
            t = 0.0 if t_new < max(lt) else t
            if evolve(t_new):
                lt = [t_new] * n; t = t_new
            read()
            continue
        elif m == 'reset-layer-evolve-zero':
            ops.append(['reset']); t = 0.0; lt = [0.0] * n
            x = float(rng.choice([0.5, 1.0, 2.0]))
            ops.append(['direct', j, 'evolve', x]); lt[j] = x
            if rng.random() < 0.3:
                read()
        elif m == 'layer-setter':
            if rng.random() < 0.5:
                ops.append(['direct', j, str(rng.choice(['setcn2', 'setl0'])), float(rng.integers(1, 9)) * SCALE if rng.random() < 0.5 else 5.0])
                if ops[-1][2] == 'setcn2':
                    ops[-1][3] = float(rng.integers(1, 9)) * SCALE
                else:
                    ops[-1][3] = float(rng.choice([5.0, 10.0, 40.0]))
            else:
                ops.append(['setcn2', float(2.0 ** int(rng.integers(0, 6))) * SCALE] if rng.random() < 0.5 else ['setl0', float(rng.choice([5.0, 10.0, 20.0, 40.0]))])
        elif m == 'same-time-twice':
            pass
        # ... and now EXACTLY the time the atmosphere has recorded
        if evolve(t):
            lt = [t] * n
        read()
        if rng.random() < 0.4:
            if evolve(t):
                lt = [t] * n
            read()
        if rng.random() < 0.35:
            ops.append(['reset']); t = 0.0; lt = [0.0] * n
            if rng.random() < 0.5:
                read()
    ops.append(['forward', True])
    return case


def _layer(kind, vel, cn2, height, seed, L0=10.0, interp=False):
    return {'kind': kind, 'vel': vel, 'cn2': cn2 * SCALE, 'L0': L0, 'height': height, 'seed': seed, 'interp': interp}


DIRECTED = [
    # evolve, reset, read at t = 0 and the reported time; replay of the same times
    {'kind': 'atmos', 'nx': 6, 'ny': 5, 'dx': 0.25, 'dy': 0.25, 'scint': False,
     'layers': [_layer('finite', [0.25, 0.0], 1, 1024.0, 11), _layer('infinite', [0.0, 0.25], 3, 0.0, 12)],
     'ops': [['evolve', 2.0], ['read', 1.0], ['reset'], ['read', 1.0], ['evolve', 2.0], ['read', 0.5], ['forward', True]]},
    # a backwards time refused in the middle of the fan-out (finite layer first)
    {'kind': 'atmos', 'nx': 5, 'ny': 5, 'dx': 0.5, 'dy': 0.5, 'scint': False,
     'layers': [_layer('finite', [0.5, 0.0], 1, 0.0, 21), _layer('infinite', [0.5, 0.5], 1, 512.0, 22), _layer('finite', [0.0, 0.5], 2, 512.0, 23)],
     'ops': [['evolve', 3.0], ['evolve', 1.0], ['read', 1.0], ['reset'], ['read', 1.0], ['sett', 1.0], ['read', 2.0]]},
    # Cn_squared of the whole atmosphere on the running layers, then reset
    {'kind': 'atmos', 'nx': 6, 'ny': 4, 'dx': 0.25, 'dy': 0.5, 'scint': False,
     'layers': [_layer('infinite', [0.25, 0.0], 1, 2048.0, 31), _layer('finite', [-0.25, 0.5], 3, 1024.0, 32)],
     'ops': [['evolve', 1.0], ['setcn2', 16 * SCALE], ['read', 1.0], ['reset'], ['evolve', 1.0], ['read', 1.0], ['setl0', 20.0], ['reset'], ['read', 1.0]]},
    # element list: unsorted heights, a tie, a layer on the ground, scintillation toggled twice before a propagation
    {'kind': 'atmos', 'nx': 4, 'ny': 4, 'dx': 1.0, 'dy': 1.0, 'scint': False,
     'layers': [_layer('finite', [1.0, 0.0], 1, 1024.0, 41), _layer('finite', [0.0, 1.0], 1, 4096.25, 42), _layer('finite', [1.0, 1.0], 1, 0.0, 43),
                _layer('infinite', [1.0, 0.0], 1, 1024.0, 44)],
     'ops': [['forward', True], ['setscint', True], ['setscint', True], ['forward', False], ['read', 1.0], ['setscint', False], ['relayers'], ['setscint', False],
             ['forward', True], ['seth', 2, 8192.0], ['forward', True], ['relayers'], ['setscint', True], ['forward', True], ['calc']]},
    # lowest layer above the ground, one layer only
    {'kind': 'atmos', 'nx': 5, 'ny': 4, 'dx': 0.5, 'dy': 0.5, 'scint': True,
     'layers': [_layer('infinite', [0.5, 0.0], 2, 512.0, 51, interp=True)],
     'ops': [['forward', True], ['evolve', 1.5], ['setscint', False], ['read', 1.0], ['reset'], ['evolve', 1.5], ['read', 1.0], ['forward', True]]},
    # round 6: the atmosphere is asked for the time it has itself recorded while a layer is elsewhere
    # (1) layer.reset() on a held layer, (2) same-seed layers swapped in, (3) evolved layer wrapped in a new atmosphere and evolve_until(0)
    {'kind': 'atmos', 'nx': 6, 'ny': 5, 'dx': 0.25, 'dy': 0.25, 'scint': False,
     'layers': [_layer('finite', [0.25, 0.0], 1, 1024.0, 71), _layer('infinite', [0.0, 0.25], 3, 0.0, 72)],
     'ops': [['evolve', 2.0], ['read', 1.0], ['direct', 0, 'reset', False], ['read', 1.0], ['evolve', 2.0], ['read', 1.0], ['direct', 1, 'reset', False],
             ['evolve', 2.0], ['read', 1.0], ['swap'], ['read', 1.0], ['evolve', 2.0], ['read', 0.5], ['forward', True]]},
    {'kind': 'atmos', 'nx': 5, 'ny': 5, 'dx': 0.5, 'dy': 0.5, 'scint': False,
     'layers': [_layer('finite', [0.5, 0.0], 1, 0.0, 81), _layer('finite', [0.0, -0.5], 1, 512.0, 82)],
     'ops': [['direct', 0, 'evolve', 2.0], ['rewrap'], ['evolve', 0.0], ['read', 1.0], ['evolve', 1.0], ['direct', 1, 'evolve', 3.0], ['sett', 1.0], ['read', 1.0],
             ['reset'], ['direct', 1, 'evolve', 1.0], ['evolve', 0.0], ['read', 1.0]]},
    {'kind': 'atmos', 'nx': 5, 'ny': 4, 'dx': 0.5, 'dy': 0.5, 'scint': False,
     'layers': [_layer('infinite', [0.5, 0.0], 1, 0.0, 91, interp=True), _layer('infinite', [-0.5, 0.5], 1, 512.0, 92)],
     'ops': [['evolve', 1.5], ['direct', 1, 'evolve', 2.5], ['evolve', 1.5], ['read', 1.0], ['swap'], ['evolve', 1.5], ['read', 1.0], ['rewrap'], ['evolve', 0.0],
             ['evolve', 1.5], ['evolve', 1.5], ['read', 1.0]]},
    # operations on the layer objects
    {'kind': 'atmos', 'nx': 5, 'ny': 6, 'dx': 0.25, 'dy': 0.25, 'scint': False,
     'layers': [_layer('infinite', [0.25, 0.25], 1, 0.0, 61), _layer('infinite', [-0.25, 0.0], 1, 1024.0, 62)],
     'ops': [['evolve', 1.0], ['direct', 1, 'evolve', 2.0], ['evolve', 1.5], ['read', 1.0], ['reset'], ['read', 1.0], ['direct', 0, 'setcn2', 4 * SCALE],
             ['reset'], ['evolve', 1.0], ['read', 1.0], ['direct', 0, 'reset', True], ['reset'], ['read', 1.0]]},
]
