"""C03 — FraunhoferPropagator equals the scaled Fourier integral.

Oracle (independent of the Lean model): the real propagator against the direct weighted sum
(numpy longdouble, phases reduced in turns) at every focal point; power conservation and
backward(forward) = identity on focal grids that are the full FFT conjugate; wavelength / Stokes
vector carried through.

Correspondence with the Lean model (Model/Fraunhofer.lean): uv-grid scaling, norm factor, weight
factor, the two focal-grid constructors (exact grids), the native/full classification against the
Fourier class that got selected, the predicted power gain, and impulse responses with phases in
exact turns.
"""
import math
import warnings
from fractions import Fraction

import numpy as np

from harness.common import rat, rat_list, parse_rat, parse_rat_list, MachineryError

TOL = 1e-9
LD = np.longdouble
TWO_PI_LD = LD(2) * np.arctan2(LD(0), LD(-1))


# ---------------------------------------------------------------------------------------------
# case construction (everything JSON-serialisable; numbers are dyadic floats)

def _dy(rng, lo, hi, bits):
    n = int(rng.integers(int(lo * (1 << bits)), int(hi * (1 << bits)) + 1))
    return n / float(1 << bits)


def _distinct(rng, n, lo, hi, bits):
    vals = set()
    while len(vals) < n:
        vals.add(_dy(rng, lo, hi, bits))
    return sorted(vals)


PUPIL_DIMS = [(2, 2), (3, 3), (4, 4), (5, 5), (8, 8), (7, 7), (6, 4), (4, 6), (5, 8), (7, 9), (9, 7), (6, 11),
              (11, 6), (3, 8), (8, 3), (10, 10), (12, 5), (1, 4), (4, 1), (2, 7)]


def gen_case(rng, big=False):
    nx, ny = PUPIL_DIMS[int(rng.integers(0, len(PUPIL_DIMS)))]
    if rng.random() < 0.3:
        nx, ny = int(rng.integers(1, 13 if not big else 21)), int(rng.integers(1, 13 if not big else 21))
    dx = _dy(rng, 1 / 16, 1 / 2, 5)
    dy = dx if rng.random() < 0.5 else _dy(rng, 1 / 16, 1 / 2, 5)
    if rng.random() < 0.7:
        zero = [-dx * (nx - 1) / 2, -dy * (ny - 1) / 2]        # make_pupil_grid / make_uniform_grid
    else:
        zero = [_dy(rng, -2, 2, 4), _dy(rng, -2, 2, 4)]           # off-centre pupil grid
    pupil = {'delta': [dx, dy], 'dims': [nx, ny], 'zero': zero}
    nlam = int(rng.integers(1, 4))
    lams = sorted(set(_dy(rng, 1 / 8, 2, 3) for _ in range(nlam)))
    if rng.random() < 0.6:
        f = {'kind': 'const', 'a': _dy(rng, 1 / 4, 4, 2)}
    else:
        f = {'kind': 'callable', 'a': _dy(rng, 1 / 4, 2, 2), 'b': _dy(rng, 0, 2, 2)}   # f(wl) = a + b*wl
    lam0 = lams[0]
    f0 = f['a'] + (f['b'] * lam0 if f['kind'] == 'callable' else 0.0)
    r = rng.random()
    if r < 0.30:
        # make_focal_grid_from_pupil_grid; q with q*N integral on both axes (D4 is C01's)
        g = math.gcd(nx, ny)
        qs = [1.0, 2.0, 3.0] + [1.0 + j / g for j in range(1, 2 * g + 1)]
        q = qs[int(rng.integers(0, len(qs)))]
        if rng.random() < 0.15:
            q = _dy(rng, 1, 4, 2)         # arbitrary: exercises np.round(q N)
        na = None if rng.random() < 0.6 else _dy(rng, 1 / 2, max(1.0, min(nx, ny) / 2.0), 1)
        focal = {'kind': 'ffpg', 'q': q, 'num_airy': na, 'f': f0, 'lam': lam0}
    elif r < 0.45:
        # the full conjugate built by hand from exact numbers: delta = lam f/(M delta_p)
        M = [nx + int(rng.integers(0, 4)) * int(rng.integers(0, nx + 1)), ny + int(rng.integers(0, 4)) * int(rng.integers(0, ny + 1))]
        focal = {'kind': 'conj', 'M': M, 'f': f0, 'lam': lam0, 'crop': [0, 0], 'shift': [0, 0]}
        if rng.random() < 0.4:
            focal['crop'] = [int(rng.integers(0, M[0])), int(rng.integers(0, M[1]))]
        if rng.random() < 0.3:
            focal['shift'] = [int(rng.integers(-3, 4)), int(rng.integers(-3, 4))]     # in half samples
    elif r < 0.62:
        q = _dy(rng, 1, 4, 2)
        na = _dy(rng, 1 / 2, 4, 1)
        diam = [dx * nx, dy * ny] if rng.random() < 0.5 else [max(dx * nx, dy * ny)] * 2
        if rng.random() < 0.5:
            diam = diam[0]
        focal = {'kind': 'mfg', 'q': q, 'num_airy': na, 'diam': diam, 'f': f0, 'lam': lam0}
    elif r < 0.74:
        mx, my = int(rng.integers(1, 9)), int(rng.integers(1, 9))
        focal = {'kind': 'regular', 'delta': [_dy(rng, 1 / 16, 1, 4), _dy(rng, 1 / 16, 1, 4)], 'dims': [mx, my],
                 'zero': [_dy(rng, -2, 2, 4), _dy(rng, -2, 2, 4)]}
    elif r < 0.86:
        # separated grids need two coordinates per axis for their automatic weights (grid geometry, C11)
        mx, my = int(rng.integers(2, 8)), int(rng.integers(2, 8))
        xs = _distinct(rng, mx, -3, 3, 5)
        ys = _distinct(rng, my, -3, 3, 5)
        focal = {'kind': 'separated', 'x': xs, 'y': ys}
    elif r < 0.95:
        m = int(rng.integers(1, 25))
        focal = {'kind': 'unstructured', 'x': [_dy(rng, -3, 3, 5) for _ in range(m)], 'y': [_dy(rng, -3, 3, 5) for _ in range(m)]}
    else:
        mr, mt = int(rng.integers(2, 5)), int(rng.integers(2, 7))
        focal = {'kind': 'polar', 'r': _distinct(rng, mr, 0, 3, 4), 'theta': _distinct(rng, mt, 0, 6, 4)}
    wfk = ['scalar', 'scalar', 'jones', 'matrix', 'scalar-stokes'][int(rng.integers(0, 5))]
    stokes = None
    if wfk in ('matrix', 'scalar-stokes'):
        stokes = [1.0, _dy(rng, -1 / 2, 1 / 2, 3), _dy(rng, -1 / 2, 1 / 2, 3), _dy(rng, -1 / 2, 1 / 2, 3)]
    case = {'pupil': pupil, 'lams': lams, 'f': f, 'focal': focal, 'wf': wfk, 'stokes': stokes,
            'fseed': int(rng.integers(0, 2 ** 31))}
    add_orientation(rng, case)
    add_nearmiss(rng, case)
    add_amplitude(rng, case)
    return add_aliasing(rng, case)


def _perturbed(x, sign, k):
    """the float nearest to x * (1 + sign * 2^-k) (exact whenever x has few significant bits)"""
    return float(Fraction(x) * (1 + Fraction(sign, 2 ** k)))


def wavelength_cache_key(lam):
    """The key under which AgnosticOpticalElement files the instance of a wavelength (hcipy/optics/optical_element.py
    `_get_cache_keys`, the code's own expression): wavelengths within ~1e-9 relative share one instance."""
    return int(np.round(np.log(lam) / np.log(1 + 1e-9)))


def noncolliding(lams):
    seen, out = set(), []
    for lam in lams:
        k = wavelength_cache_key(lam)
        if k not in seen:
            seen.add(k); out.append(lam)
    return out


def add_nearmiss(rng, case, p=0.40):
    """Near-miss class: a focal grid that is FFT-commensurate with the pupil grid for the design (wavelength, focal length) is used
    at a relative distance 2^-k, k = 10..50, from it: (lam) one more wavelength lam0 (1 +- 2^-k) on the same propagator, (f) the
    focal length of the propagator off by that factor, (grid) the focal grid `.scaled(1 +- 2^-k)`, (grid-axis) stretched on one
    axis only.  Such a grid is NOT a native FFT grid (beyond the code's own |q N - round(q N)| <= 1e-10 test); treating it as one
    evaluates the integral on the snapped grid and labels it with the supplied one (error ~ the perturbation)."""
    fo = case['focal']
    if fo['kind'] not in ('ffpg', 'conj', 'mfg') or fo.get('mirror') or fo.get('reversed') or rng.random() >= p:
        return
    k = int(rng.integers(10, 51))
    sign = 1 if rng.random() < 0.5 else -1
    via = ['lam', 'f', 'grid', 'grid-axis', 'zero', 'zero', 'zero'][int(rng.integers(0, 7 if fo['kind'] == 'conj' else 4))]
    if via == 'zero':
        # commensurate spacing, the zero 2^-k samples off the (shifted) native position: still a native FFT grid, with that shift
        k = int(rng.integers(10, 34))
        e = sign * 2.0 ** -k
        fo['nudge'] = [[e, 0.0], [0.0, e], [e, e], [e, -e]][int(rng.integers(0, 4))]
    elif via == 'lam':
        lam = _perturbed(fo['lam'], sign, k)
        if lam in case['lams']:
            return
        case['lams'] = list(case['lams']) + [lam]
    elif via == 'f':
        f = case['f']
        f['a'] = _perturbed(f['a'], sign, k)
        if f['kind'] == 'callable':
            f['b'] = _perturbed(f['b'], sign, k)
    else:
        e = _perturbed(1.0, sign, k)
        fo['stretch'] = [e, e] if via == 'grid' else ([e, 1.0] if rng.random() < 0.5 else [1.0, e])
    case['nearmiss'] = {'via': via, 'k': k, 'sign': sign}


def add_orientation(rng, case):
    """Orientation class: focal grids with negative spacing on one or both axes (`grid.scaled([sx, sy])`, `grid.scaled(-1)`,
    `grid.reversed()`) that are otherwise FFT-commensurate with the pupil grid, and negative focal lengths (constant or
    callable).  The uv grid `focal.scaled(2 pi/(lam f))` is then mirrored on the axes where sign(delta)*sign(lam f) < 0 and is NOT
    a native FFT grid (the FFT cannot produce a mirrored output); with both signs negative it is native again."""
    fo = case['focal']
    if fo['kind'] in ('ffpg', 'conj', 'mfg', 'regular') and rng.random() < 0.30:
        r = rng.random()
        if r < 0.3:
            fo['mirror'] = [1, -1]
        elif r < 0.6:
            fo['mirror'] = [-1, 1]
        elif r < 0.8 or fo['kind'] in ('ffpg', 'mfg'):
            fo['mirror'] = [-1, -1]
        else:
            fo['reversed'] = True
    if rng.random() < 0.18:
        f = case['f']
        f['a'] = -f['a']
        if f['kind'] == 'callable':
            f['b'] = -f['b']
        if 'f' in fo:
            # the constructors were called with the (negative) focal length of the first wavelength
            fo['f'] = -fo['f']


def add_amplitude(rng, case):
    """Amplitude class: every tensor component of the field is multiplied by its own exact power of two 2^e, e in [-40, 40]
    (floats scale exactly; the property is homogeneous of degree one per component)."""
    n = {'scalar': 1, 'scalar-stokes': 1, 'jones': 2, 'matrix': 4}[case['wf']]
    r = rng.random()
    if r < 0.35:
        e = int(rng.integers(-40, 41))
        case['amp'] = [e] * n                                   # whole wavefront faint / bright
    elif r < 0.55:
        case['amp'] = [int(rng.integers(-40, 41)) for _ in range(n)]   # components of very different strength


def add_aliasing(rng, case):
    """Input aliasing: the same ndarray object for both axes of a separated / polar grid, for both coordinate
    columns of an unstructured grid, for delta and zero of a regular grid (focal and pupil); and a focal/pupil grid
    shared with a second propagator that is used first."""
    if rng.random() < 0.3:
        fo = case['focal']
        k = fo['kind']
        if k == 'separated':
            fo['y'] = list(fo['x']); fo['alias'] = True
        elif k == 'unstructured':
            fo['y'] = list(fo['x']); fo['alias'] = True
        elif k == 'polar':
            fo['theta'] = list(fo['r']); fo['alias'] = True
        elif k == 'regular':
            fo['delta'] = [fo['delta'][0]] * 2; fo['zero'] = list(fo['delta']); fo['alias'] = True
        if rng.random() < 0.5:
            p = case['pupil']
            p['delta'] = [p['delta'][0]] * 2; p['zero'] = list(p['delta']); p['alias'] = True
    if rng.random() < 0.25:
        case['shared'] = True
    return case


def directed():
    cases = []
    sq = {'delta': [0.125, 0.125], 'dims': [8, 8], 'zero': [-0.4375, -0.4375]}
    ns = {'delta': [0.125, 0.25], 'dims': [6, 11], 'zero': [-0.3125, -1.25]}
    odd = {'delta': [0.25, 0.125], 'dims': [7, 9], 'zero': [-0.75, -0.5]}
    for pupil in (sq, ns, odd):
        for q, na in ((1.0, None), (2.0, None), (2.0, 3.0), (3.0, 1.5)):
            for wf in ('scalar', 'matrix'):
                cases.append({'pupil': pupil, 'lams': [0.5, 1.0], 'f': {'kind': 'const', 'a': 2.0},
                              'focal': {'kind': 'ffpg', 'q': q, 'num_airy': na, 'f': 2.0, 'lam': 0.5}, 'wf': wf,
                              'stokes': [1.0, 0.5, -0.25, 0.125] if wf == 'matrix' else None, 'fseed': 7})
        cases.append({'pupil': pupil, 'lams': [0.5, 0.75], 'f': {'kind': 'callable', 'a': 1.0, 'b': 2.0},
                      'focal': {'kind': 'mfg', 'q': 2.0, 'num_airy': 3.0, 'diam': 1.0, 'f': 2.0, 'lam': 0.5}, 'wf': 'jones',
                      'stokes': None, 'fseed': 8})
        cases.append({'pupil': pupil, 'lams': [1.0], 'f': {'kind': 'const', 'a': 0.5},
                      'focal': {'kind': 'unstructured', 'x': [0.0, 0.25, -0.5, 1.0], 'y': [0.0, -0.75, 0.5, 1.0]}, 'wf': 'scalar-stokes',
                      'stokes': [1.0, 0.0, 0.5, 0.0], 'fseed': 9})
    sq8 = {'delta': [0.125, 0.125], 'dims': [8, 8], 'zero': [-0.4375, -0.4375]}
    ax = [-0.75, -0.25, 0.0, 0.5, 1.0]
    for fo in ({'kind': 'separated', 'x': ax, 'y': list(ax), 'alias': True}, {'kind': 'unstructured', 'x': ax, 'y': list(ax), 'alias': True},
               {'kind': 'polar', 'r': [0.25, 0.5, 1.0], 'theta': [0.25, 0.5, 1.0], 'alias': True},
               {'kind': 'regular', 'delta': [0.25, 0.25], 'dims': [5, 4], 'zero': [0.25, 0.25], 'alias': True}):
        for shared in (False, True):
            cases.append({'pupil': dict(sq8), 'lams': [0.5], 'f': {'kind': 'const', 'a': 2.0}, 'focal': dict(fo), 'wf': 'scalar',
                          'stokes': None, 'fseed': 10, 'shared': shared})
    # orientation class: mirrored / reversed full conjugates, negative focal length; amplitude class: faint tensor fields
    asym = {'delta': [0.125, 0.125], 'dims': [6, 5], 'zero': [-0.3125, -0.25]}
    for mir, fa, wf, amp in (([1, -1], 2.0, 'scalar', None), ([-1, 1], 2.0, 'jones', [-28, -28]), ([-1, -1], 2.0, 'scalar', None),
                             ([-1, -1], -2.0, 'matrix', [-30] * 4), (None, -2.0, 'scalar', [30]), ([1, -1], -2.0, 'jones', [0, -35])):
        fo = {'kind': 'ffpg', 'q': 2.0, 'num_airy': None, 'f': fa, 'lam': 0.5}
        if mir:
            fo['mirror'] = mir
        c = {'pupil': dict(asym), 'lams': [0.5, 1.0], 'f': {'kind': 'const', 'a': fa}, 'focal': fo, 'wf': wf,
             'stokes': [1.0, 0.5, -0.25, 0.125] if wf == 'matrix' else None, 'fseed': 13}
        if amp:
            c['amp'] = amp
        cases.append(c)
    cases.append({'pupil': dict(asym), 'lams': [0.5], 'f': {'kind': 'const', 'a': 2.0},
                  'focal': {'kind': 'conj', 'M': [12, 10], 'f': 2.0, 'lam': 0.5, 'crop': [0, 0], 'shift': [0, 0], 'reversed': True},
                  'wf': 'scalar-stokes', 'stokes': [1.0, 0.0, 0.5, 0.0], 'fseed': 14, 'amp': [-33]})
    # near-miss class: design-wavelength FFT focal grids re-used slightly off (wavelength, focal length, grid scale)
    cases.append({'pupil': dict(sq), 'lams': [0.5], 'f': {'kind': 'const', 'a': 2.0},
                  'focal': {'kind': 'conj', 'M': [24, 24], 'f': 2.0, 'lam': 0.5, 'crop': [2, 0], 'shift': [0, 1], 'nudge': [2.0 ** -24, -2.0 ** -24]},
                  'wf': 'scalar', 'stokes': None, 'fseed': 16, 'nearmiss': {'via': 'zero', 'k': 24, 'sign': 1}})
    for k_, via in ((18, 'lam'), (22, 'f'), (26, 'grid'), (30, 'grid-axis'), (14, 'lam'), (40, 'f')):
        e_ = 1.0 + 2.0 ** -k_
        c = {'pupil': dict(asym if k_ % 4 else sq), 'lams': [0.5], 'f': {'kind': 'const', 'a': 2.0},
             'focal': {'kind': 'ffpg', 'q': 2.0, 'num_airy': None if k_ != 26 else 2.0, 'f': 2.0, 'lam': 0.5}, 'wf': 'scalar', 'stokes': None,
             'fseed': 15, 'nearmiss': {'via': via, 'k': k_, 'sign': 1}}
        if via == 'lam':
            c['lams'] = [0.5, 0.5 * e_]
        elif via == 'f':
            c['f']['a'] = 2.0 * e_
        else:
            c['focal']['stretch'] = [e_, e_] if via == 'grid' else [1.0, e_]
        cases.append(c)
    cases.append({'pupil': {'delta': [0.125, 0.125], 'dims': [6, 5], 'zero': [0.125, 0.125], 'alias': True}, 'lams': [0.5, 1.0],
                  'f': {'kind': 'const', 'a': 2.0}, 'focal': {'kind': 'ffpg', 'q': 2.0, 'num_airy': None, 'f': 2.0, 'lam': 0.5},
                  'wf': 'jones', 'stokes': None, 'fseed': 12, 'shared': True})
    return cases


# ---------------------------------------------------------------------------------------------
# building the real objects

def f_value(f, lam):
    return f['a'] + f['b'] * lam if f['kind'] == 'callable' else f['a']


USER_ARRAYS = []     # (array object handed to hcipy, pristine copy): must be unchanged afterwards


def _user(a):
    USER_ARRAYS.append((a, a.copy()))
    return a


def build_pupil(case):
    import hcipy
    p = case['pupil']
    d = _user(np.array(p['delta'], dtype=float))
    z = d if (p.get('alias') and list(p['zero']) == list(p['delta'])) else _user(np.array(p['zero'], dtype=float))
    return hcipy.CartesianGrid(hcipy.RegularCoords(d, np.array(p['dims']), z))


def build_focal(case, pupil_grid):
    """Returns (grid, exact) where exact = (delta, dims, zero) as Fractions for hand-built regular grids, else None."""
    g, exact = _build_focal(case, pupil_grid)
    fo = case['focal']
    if fo.get('mirror'):
        sx, sy = fo['mirror']
        g = g.scaled(-1) if (sx, sy) == (-1, -1) and case['fseed'] % 2 == 0 else g.scaled(np.array([float(sx), float(sy)]))
        if exact is not None:
            d, n, z = exact
            exact = ([d[0] * sx, d[1] * sy], n, [z[0] * sx, z[1] * sy])
    elif fo.get('reversed'):
        g = g.reversed()
        if exact is not None:
            d, n, z = exact
            exact = ([-d[0], -d[1]], n, [z[0] + d[0] * (n[0] - 1), z[1] + d[1] * (n[1] - 1)])
    if fo.get('stretch'):
        sx, sy = fo['stretch']
        g = g.scaled(float(sx)) if sx == sy and case['fseed'] % 2 == 0 else g.scaled(np.array([float(sx), float(sy)]))
        if exact is not None:
            d, n, z = exact
            exact = ([d[0] * Fraction(sx), d[1] * Fraction(sy)], n, [z[0] * Fraction(sx), z[1] * Fraction(sy)])
    return g, exact


def _build_focal(case, pupil_grid):
    import hcipy
    fo = case['focal']
    k = fo['kind']
    if k == 'ffpg':
        with warnings.catch_warnings():
            warnings.simplefilter('ignore')
            g = hcipy.make_focal_grid_from_pupil_grid(pupil_grid, fo['q'], fo['num_airy'], focal_length=fo['f'], wavelength=fo['lam'])
        return g, None
    if k == 'mfg':
        g = hcipy.make_focal_grid(fo['q'], fo['num_airy'], pupil_diameter=np.array(fo['diam']) if isinstance(fo['diam'], list) else fo['diam'],
                                  focal_length=fo['f'], reference_wavelength=fo['lam'])
        return g, None
    if k == 'conj':
        lf = Fraction(fo['f']) * Fraction(fo['lam'])
        delta, dims, zero = [], [], []
        for i in range(2):
            M = fo['M'][i]
            d = lf / (Fraction(case['pupil']['delta'][i]) * M)
            n = M - fo['crop'][i]
            z = -d * (n // 2) + d * Fraction(fo['shift'][i], 2) + d * Fraction(fo.get('nudge', [0, 0])[i])
            delta.append(d); dims.append(n); zero.append(z)
        g = hcipy.CartesianGrid(hcipy.RegularCoords(np.array([float(d) for d in delta]), np.array(dims), np.array([float(z) for z in zero])))
        return g, (delta, dims, zero)
    def pair(a, b):
        u = _user(np.array(a, dtype=float))
        v = u if (fo.get('alias') and list(a) == list(b)) else _user(np.array(b, dtype=float))
        return u, v
    if k == 'regular':
        d, z = pair(fo['delta'], fo['zero'])
        g = hcipy.CartesianGrid(hcipy.RegularCoords(d, np.array(fo['dims']), z))
        return g, ([Fraction(d) for d in fo['delta']], list(fo['dims']), [Fraction(z) for z in fo['zero']])
    if k == 'separated':
        return hcipy.CartesianGrid(hcipy.SeparatedCoords(pair(fo['x'], fo['y']))), None
    if k == 'unstructured':
        return hcipy.CartesianGrid(hcipy.UnstructuredCoords(pair(fo['x'], fo['y'])), weights=np.ones(len(fo['x']))), None
    if k == 'polar':
        return hcipy.PolarGrid(hcipy.SeparatedCoords(pair(fo['r'], fo['theta']))), None
    raise MachineryError('unknown focal kind %r' % k)


def make_field(case, grid):
    import hcipy
    rng = np.random.default_rng(case['fseed'])
    ts = {'scalar': (), 'scalar-stokes': (), 'jones': (2,), 'matrix': (2, 2)}[case['wf']]
    re = rng.integers(-8, 9, size=ts + (grid.size,)) / 4.0
    im = rng.integers(-8, 9, size=ts + (grid.size,)) / 4.0
    return hcipy.Field((re + 1j * im) * amp_factors(case, ts), grid)


def amp_factors(case, ts, c64=False):
    """Per-component exact powers of two, shaped to broadcast over the field (single precision: exponents kept within +-12)."""
    amp = case.get('amp')
    if not amp:
        return 1.0
    e = np.array(amp, dtype=float)
    if c64:
        e = np.clip(e, -12, 12)
    return (2.0 ** e).reshape(ts + (1,))


def rel_err(got, ref, e_in, w_in, lf):
    """max over tensor components t of  max|got_t - ref_t| / B_t,  B_t = sum |E_t| w / |lam f|  (the bound of |ref_t|, homogeneous
    of degree one in E_t; no absolute floor: a faint component must be as accurate, relatively, as a bright one)."""
    n_out = ref.shape[-1] if ref.ndim else 1
    if ref.size == 0:
        return 0.0
    n_in = np.asarray(e_in).shape[-1]
    E = np.abs(np.asarray(e_in, dtype=np.clongdouble)).reshape(-1, n_in)
    w = np.asarray(w_in, dtype=LD) * np.ones(n_in, dtype=LD)
    B = (E * w).sum(axis=1) / abs(LD(lf))
    err = np.abs(np.asarray(got).reshape(-1, n_out) - np.asarray(ref).reshape(-1, n_out)).max(axis=1)
    worst = 0.0
    for b, e in zip(B, err):
        if e == 0:
            continue
        worst = max(worst, float('inf') if b == 0 else float(e / b))
    return worst


def make_wavefront(case, field, lam):
    import hcipy
    if case['stokes'] is not None:
        return hcipy.Wavefront(field, lam, input_stokes_vector=np.array(case['stokes']))
    return hcipy.Wavefront(field, lam)


# ---------------------------------------------------------------------------------------------
# the property itself (independent of the model)

def cart_coords(grid):
    g = grid.as_('cartesian')
    return np.array([np.asarray(g.x, dtype=LD), np.asarray(g.y, dtype=LD)])


def kernel(pupil_grid, focal_grid, lam, f, cache=None):
    """exp(-2 pi i x.u/(lam f)) for all (focal point x, pupil point u), long double, phases reduced in turns."""
    key = (lam, f)
    if cache is not None and key in cache:
        return cache[key]
    xs = cart_coords(focal_grid)                    # (2, Nf)
    us = cart_coords(pupil_grid)                    # (2, Np)
    lf = LD(lam) * LD(f)
    t = -(xs.T @ us) / lf                           # turns, (Nf, Np)
    t = t - np.floor(t)
    ph = TWO_PI_LD * t
    K = (np.cos(ph) + 1j * np.sin(ph)).astype(np.clongdouble)
    if cache is not None:
        cache[key] = K
    return K


def direct_sum(pupil_grid, focal_grid, E, lam, f, cache=None):
    """1/(i lam f) sum_u E(u) w(u) exp(-2 pi i x.u/(lam f)) for every focal point x, in long double.
    E has shape (..., Npupil)."""
    w = np.asarray(pupil_grid.weights, dtype=LD) * np.ones(pupil_grid.size, dtype=LD)
    lf = LD(lam) * LD(f)
    K = kernel(pupil_grid, focal_grid, lam, f, cache)
    Ew = (np.asarray(E, dtype=np.clongdouble) * w).reshape(-1, pupil_grid.size)
    out = (K @ Ew.T).T / (1j * lf)                  # (ntensor, Nf)
    return out


def is_full_conjugate(pupil_grid, focal_grid, lam, f):
    """Float-tolerant, model-independent: regular focal grid with delta_i * M_i * delta_p_i = lam f, dims = M >= N,
    centred zero (= -delta floor(M/2))."""
    if not focal_grid.is_regular or not focal_grid.is_('cartesian'):
        return False
    lf = lam * f
    for i in range(2):
        M = int(focal_grid.dims[i])
        if M < int(pupil_grid.dims[i]):
            return False
        if abs(focal_grid.delta[i] * M * pupil_grid.delta[i] - lf) > 1e-12 * abs(lf):
            return False
        if abs(focal_grid.zero[i] + focal_grid.delta[i] * (M // 2)) > 1e-12 * abs(focal_grid.delta[i]) * max(1, M):
            return False
    return True


def d4_affected(pupil_grid, focal_grid, lam, f):
    """True when the focal grid is a native FFT grid whose padded size M is recomputed one short by
    make_fft_grid's float expression int(N * (M / N))  (finding D4, owned by C01): then FastFourierTransform is
    built on an internal grid of M-1 samples.  Exact predicate on the sizes, nothing else is excused."""
    if not focal_grid.is_regular or not focal_grid.is_('cartesian'):
        return False
    lf = lam * f
    for i in range(2):
        N = int(pupil_grid.dims[i])
        m = lf / (float(pupil_grid.delta[i]) * float(focal_grid.delta[i]))
        M = int(round(m))
        if M < N or abs(m - M) > 1e-9 * max(1, M):
            return False
    for i in range(2):
        N = int(pupil_grid.dims[i])
        M = int(round(lf / (float(pupil_grid.delta[i]) * float(focal_grid.delta[i]))))
        if int(np.float64(N) * (np.float64(M) / np.float64(N))) != M:
            return True
    return False


def oracle_case(case, observe=None):
    """Runs the real propagator; returns list of (key, what). `observe` collects data for the correspondence."""
    import hcipy
    bad = []
    pupil_grid = build_pupil(case)
    focal_grid, exact = build_focal(case, pupil_grid)
    if focal_grid.size == 0:
        if observe is not None:
            observe.update({'pupil_grid': pupil_grid, 'focal_grid': focal_grid, 'exact': exact, 'prop': None, 'per_lam': []})
        return bad
    if case['f']['kind'] == 'callable':
        a, b = case['f']['a'], case['f']['b']
        fl = lambda wl: a + b * wl      # noqa: E731
    else:
        fl = case['f']['a']
    snap = grid_snapshot(pupil_grid, focal_grid)
    if case.get('shared'):
        # the same two grid objects serve another propagator (other focal length) that is used first
        other = hcipy.FraunhoferPropagator(pupil_grid, focal_grid, focal_length=3.0)
        lam0 = case['lams'][0]
        e0 = make_field(case, pupil_grid)
        w0 = make_wavefront(case, e0.copy(), lam0)
        try:
            o0 = other.forward(w0)
            if not d4_affected(pupil_grid, focal_grid, lam0, 3.0):
                ref0 = direct_sum(pupil_grid, focal_grid, np.asarray(w0.electric_field), lam0, 3.0)
                err0 = rel_err(np.asarray(o0.electric_field), ref0, np.asarray(w0.electric_field), pupil_grid.weights, lam0 * 3.0)
                if not err0 <= TOL:
                    bad.append(('integral shared-grids ' + case['focal']['kind'], 'a second propagator on the same grid objects differs from the Fourier sum by %.3g' % err0))
        except Exception as e:
            if not d4_affected(pupil_grid, focal_grid, lam0, 3.0):
                bad.append(('raises %s shared-grids' % type(e).__name__, 'second propagator on shared grids raised %s: %s' % (type(e).__name__, e)))
    prop = hcipy.FraunhoferPropagator(pupil_grid, focal_grid, focal_length=fl)     # fresh per pupil grid (D3 is C05's)
    field = make_field(case, pupil_grid)
    kind = case['focal']['kind'] + '/' + case['wf']
    obs = {'pupil_grid': pupil_grid, 'focal_grid': focal_grid, 'exact': exact, 'prop': prop, 'per_lam': []}
    wkeys = {}
    for lam in case['lams']:
        # exact predicate of finding `wavelength-key-collision`: an earlier, different wavelength of this object has the same cache key
        wk = wavelength_cache_key(lam)
        collision = wk in wkeys and wkeys[wk] != lam
        wkeys.setdefault(wk, lam)
        f = f_value(case['f'], lam)
        wf = make_wavefront(case, field.copy(), lam)
        e_in = wf.electric_field.copy()
        d4 = d4_affected(pupil_grid, focal_grid, lam, f)
        lb = []
        try:
            out = prop.forward(wf)
        except Exception as e:      # an input the property quantifies over must not raise
            if d4:
                obs['per_lam'].append({'lam': lam, 'f': f, 'full': False, 'err': None, 'raised': True, 'd4': True})
                continue
            bad.append(('raises %s %s' % (type(e).__name__, kind), 'forward raised %s: %s (lam=%r f=%r)' % (type(e).__name__, e, lam, f)))
            obs['per_lam'].append({'lam': lam, 'f': f, 'full': False, 'err': None, 'raised': True})
            continue
        og = out.electric_field.grid
        if og is not focal_grid and not (og.size == focal_grid.size and np.array_equal(np.asarray(og.points), np.asarray(focal_grid.points))):
            lb.append(('output-grid ' + kind, 'forward did not return the field on the supplied focal grid'))
        ref = direct_sum(pupil_grid, focal_grid, e_in, lam, f)
        got = np.asarray(out.electric_field).reshape(-1, focal_grid.size)
        scale = float(np.abs(ref).max()) if ref.size else 0.0
        err = rel_err(got, ref, e_in, pupil_grid.weights, lam * f)
        if not err <= TOL:
            lb.append(('integral ' + kind, 'forward differs from 1/(i lam f) sum E w exp(-2 pi i x.u/(lam f)) by %.3g relative to sum|E|w/|lam f| of the component (|ref|max %.3g) at lam=%r f=%r'
                        % (err, scale, lam, f)))
        if out.wavelength != lam:
            lb.append(('wavelength-carried', 'forward changed the wavelength %r -> %r' % (lam, out.wavelength)))
        if case['stokes'] is None:
            if out.input_stokes_vector is not None:
                lb.append(('stokes-carried', 'forward invented a Stokes vector'))
        elif out.input_stokes_vector is None or not np.array_equal(out.input_stokes_vector, np.array(case['stokes'])):
            lb.append(('stokes-carried', 'forward did not carry the input Stokes vector'))
        if not np.array_equal(np.asarray(wf.electric_field), np.asarray(e_in)):
            lb.append(('input-intact', 'forward modified its input wavefront'))
        full = is_full_conjugate(pupil_grid, focal_grid, lam, f)
        rec = {'lam': lam, 'f': f, 'full': full, 'err': err, 'd4': d4}
        nud = case['focal'].get('nudge')
        if nud and any(nud) and not any(case['focal'].get('shift', [0, 0])):
            # exact predicate of finding `fft-small-shift-dropped` (D303): FastFourierTransform skips the phase ramp of a non-zero
            # output-grid shift when np.allclose(shift, 0), i.e. |shift| <= 1e-8 on every axis in uv units
            try:
                inst_ = prop.get_instance_data(pupil_grid, None, lam)
                if type(inst_.fourier_transform).__name__ == 'FastFourierTransform':
                    sh_ = [abs(n_ * float(d_)) for n_, d_ in zip(nud, inst_.uv_grid.delta)]
                    if all(v_ <= 1e-8 for v_ in sh_):
                        rec['shift_dropped'] = sh_
                        lb = [('fft-small-shift-dropped ' + k_, w_ + ' [output-grid shift %r <= 1e-8 in uv units]' % (sh_,)) for k_, w_ in lb]
            except Exception:
                pass
        if collision:
            rec['wkey_collision'] = wkeys[wk]
            lb = [('wavelength-key-collision ' + k_, w_ + ' [served by the cached instance of wavelength %r]' % wkeys[wk]) for k_, w_ in lb]
        if full:
            p_in, p_out = float(wf.total_power), float(out.total_power)
            rec['gain'] = p_out / p_in if p_in else None
            if not abs(p_out - p_in) <= TOL * abs(p_in):
                lb.append(('power ' + kind, 'total power %r -> %r on the full conjugate grid (lam=%r f=%r)' % (p_in, p_out, lam, f)))
            back = prop.backward(out)
            eb = np.abs(np.asarray(back.electric_field) - np.asarray(e_in)).reshape(-1, pupil_grid.size).max(axis=1)
            en = np.abs(np.asarray(e_in)).reshape(-1, pupil_grid.size).max(axis=1)
            berr = max([0.0] + [float('inf') if (n == 0 and e > 0) else (0.0 if e == 0 else float(e / n)) for e, n in zip(eb, en)])
            if not berr <= TOL:
                lb.append(('inverse ' + kind, 'backward(forward(E)) differs from E by %.3g on the full conjugate grid (lam=%r f=%r)' % (berr, lam, f)))
            if back.wavelength != lam:
                lb.append(('wavelength-carried', 'backward changed the wavelength'))
            if (case['stokes'] is None) != (back.input_stokes_vector is None) or (
                    case['stokes'] is not None and not np.array_equal(back.input_stokes_vector, np.array(case['stokes']))):
                lb.append(('stokes-carried', 'backward did not carry the input Stokes vector'))
        if d4 and lb:
            # excused only on the exact D4 predicate (sizes); counted by run()
            rec['d4_excused'] = [k for k, _ in lb]
        else:
            bad += lb
        if observe is not None:
            inst = prop.get_instance_data(pupil_grid, None, lam)
            rec['norm_factor'] = complex(inst.norm_factor)
            rec['uv_grid'] = inst.uv_grid
            rec['ft'] = type(inst.fourier_transform).__name__
        obs['per_lam'].append(rec)
    bad += inputs_unchanged(snap, pupil_grid, focal_grid)
    if observe is not None:
        observe.update(obs)
    return bad


def grid_snapshot(pupil_grid, focal_grid):
    del USER_ARRAYS[:-8]          # only the arrays of the grids just built matter
    return [np.array(g.points, dtype=float).copy() for g in (pupil_grid, focal_grid)] + \
           [np.array(g.weights, dtype=float).copy() * np.ones(g.size) for g in (pupil_grid, focal_grid)]


def inputs_unchanged(snap, pupil_grid, focal_grid):
    bad = []
    now = grid_snapshot(pupil_grid, focal_grid)
    names = ['pupil grid points', 'focal grid points', 'pupil grid weights', 'focal grid weights']
    for a, b, nm in zip(snap, now, names):
        if a.shape != b.shape or not np.array_equal(a, b):
            bad.append(('input-grid-modified', 'the %s the user supplied were changed by propagating' % nm))
    for arr, pristine in USER_ARRAYS:
        if not np.array_equal(arr, pristine):
            bad.append(('input-array-modified', 'an ndarray the user built a grid from was changed by propagating'))
            break
    return bad


# ---------------------------------------------------------------------------------------------
# correspondence with the Lean model

def _kv(resp):
    if not resp.startswith('ok'):
        raise MachineryError('model answered %r' % resp)
    return dict(t.split('=', 1) for t in resp.split()[1:])


def _close(a, b, tol=1e-11):
    return abs(a - b) <= tol * max(1.0, abs(a), abs(b))


def planner_flag(pg, uv):
    """The two oracle inputs of the model of make_fourier_transform, taken from the running code: does the float
    get_fft_parameters accept the uv grid (None = no), and if so the outcome of the planner's estimate
    (True = not `fft > mft`), recomputed with the code's own expression."""
    from hcipy.fourier.fast_fourier_transform import get_fft_parameters, make_fft_grid
    try:
        q, fov, shift = get_fft_parameters(uv, pg)
    except ValueError:
        return None
    og = make_fft_grid(pg, q, fov, shift)
    n_in = pg.shape.astype('float') * q
    n_out = og.shape.astype('float')
    fft = 4 * np.prod(n_in) * np.log2(np.prod(n_in))
    mft = 4 * (np.prod(pg.shape) * n_out[1] + np.prod(n_out) * pg.shape[0])
    return not bool(fft > mft)


def _lens_requests(case, obs, rec, rng, lines, plan):
    """Pipeline tie: the modelled selection + selected pipeline + norm factor on unit impulses (driver op `lens`)."""
    p = case['pupil']
    fo = case['focal']
    pg, fg = obs['pupil_grid'], obs['focal_grid']
    if rec.get('d4') or 'uv_grid' not in rec:
        return
    nx, ny = p['dims']
    if fg.is_regular and fg.is_('cartesian'):
        flag = planner_flag(pg, rec['uv_grid'])
        mx, my = int(fg.dims[0]), int(fg.dims[1])
        for i in range(2):
            jx, jy = int(rng.integers(0, nx)), int(rng.integers(0, ny))
            kx, ky = int(rng.integers(0, mx)), int(rng.integers(0, my))
            d = 'fwd' if (i == 0 or rng.random() < 0.5) else 'bwd'
            if flag is None:
                cheaper = 0                      # float test rejects: the code uses the MFT on the given grid
            elif i == 0:
                cheaper = int(flag)              # the code's own planner outcome: methods must coincide
            else:
                cheaper = int(rng.integers(0, 2))   # whichever method: the numbers must still be the code's
            emu = int(rng.integers(0, 2))
            lines.append('C03 lens %s %d %d [%d,%d] [%d,%d]' % (d, cheaper, emu, jx, jy, kx, ky))
            plan.append(('lens', rec, d, jx, jy, ky * mx + kx, cheaper, flag))
    elif fo['kind'] == 'separated':
        xs, ys = fo['x'], fo['y']
        for i in range(2):
            jx, jy = int(rng.integers(0, nx)), int(rng.integers(0, ny))
            kx, ky = int(rng.integers(0, len(xs))), int(rng.integers(0, len(ys)))
            cheaper = int(rng.integers(0, 2))
            lines.append('C03 lens-sep %d [%d,%d] [%d,%d] %s %s' % (cheaper, jx, jy, kx, ky, rat_list(xs), rat_list(ys)))
            plan.append(('lens', rec, 'fwd', jx, jy, ky * len(xs) + kx, cheaper, 'sep'))


def _fspec(f):
    return 'const %s' % rat(f['a']) if f['kind'] == 'const' else 'affine %s %s' % (rat(f['a']), rat(f['b']))


N_COMP = {'scalar': 1, 'scalar-stokes': 4, 'jones': 2, 'matrix': 4}


def _obj_requests(case, obs, rec, rng, lines, plan, cur_ok):
    """Object tie (driver op `obj`): the executed record functions LensProp.forward/backward on a whole wavefront (every tensor
    component its own scaled impulse, wavelength, Stokes vector), for regular / separated / unstructured / polar focal grids,
    optionally after `prop.focal_length = ...` on the same object (and back)."""
    p = case['pupil']
    fo = case['focal']
    pg, fg = obs['pupil_grid'], obs['focal_grid']
    if rec.get('d4') or 'uv_grid' not in rec or fg.size == 0:
        return
    nx, ny = p['dims']
    lam = rec['lam']
    setter = None
    if rng.random() < 0.3:
        setter = _spec(rng)
        if rng.random() < 0.3:
            setter['a'] = -setter['a']
            if setter['kind'] == 'callable':
                setter['b'] = -setter['b']
    f_now = f_value(setter, lam) if setter else rec['f']
    if f_now * lam == 0 or d4_affected(pg, fg, lam, f_now):
        setter, f_now = None, rec['f']
    regular = fg.is_regular and fg.is_('cartesian')
    mat_real = _nft_precompute()
    if regular:
        if not cur_ok:
            return
        grid = 'cur'
        mx, my = int(fg.dims[0]), int(fg.dims[1])
        dirs = ['fwd', 'bwd']
    elif fo['kind'] == 'separated':
        grid = 'sep %s %s' % (rat_list(fo['x']), rat_list(fo['y']))
        mx, my = len(fo['x']), len(fo['y'])
        dirs = ['fwd']
    else:
        c = fg.as_('cartesian')
        w = np.asarray(fg.weights, dtype=float) * np.ones(fg.size)
        grid = 'pts %s %s %s' % (rat_list([float(v) for v in c.x]), rat_list([float(v) for v in c.y]), rat_list([float(v) for v in w]))
        mx, my = fg.size, 1
        dirs = ['fwd', 'bwd']
    d = dirs[int(rng.integers(0, len(dirs)))]
    flag = None
    if regular:
        flag = planner_flag(pg, fg.scaled(2 * np.pi / (f_now * lam)))
        cheaper = 0 if flag is None else int(flag)
    else:
        cheaper = int(rng.integers(0, 2))
    mat = int(mat_real) if rng.random() < 0.7 else int(rng.integers(0, 2))
    emu = int(rng.integers(0, 2))
    n = N_COMP[case['wf']]
    amp = case.get('amp') or [0] * {'scalar': 1, 'scalar-stokes': 1, 'jones': 2, 'matrix': 4}[case['wf']]
    comps = []
    for t in range(n):
        if d == 'fwd':
            ix, iy = int(rng.integers(0, nx)), int(rng.integers(0, ny))
        else:
            ix, iy = int(rng.integers(0, mx)), int(rng.integers(0, my))
        a = Fraction(int(rng.integers(1, 8)) * (-1 if rng.random() < 0.3 else 1), 4) * Fraction(2) ** int(amp[t % len(amp)])
        comps.append([ix, iy, a])
    if case['wf'] == 'scalar-stokes':
        # Wavefront.__init__ turns the scalar field E into the Jones matrix E * identity
        comps = [comps[0], comps[0][:2] + [Fraction(0)], comps[0][:2] + [Fraction(0)], comps[0]]
    if d == 'fwd':
        kx, ky = int(rng.integers(0, mx)), int(rng.integers(0, my))
    else:
        kx, ky = int(rng.integers(0, nx)), int(rng.integers(0, ny))
    st = '-' if case['stokes'] is None else rat_list(case['stokes'])
    if setter:
        lines.append('C03 setf ' + _fspec(setter)); plan.append(('ok', rec))
    lines.append('C03 obj %s %s %d %d %d %s [%d,%d] %d %s %s' % (d, rat(lam), cheaper, mat, emu, st, kx, ky, len(comps),
                 ' '.join('[%d,%d,%s]' % (c[0], c[1], rat(c[2])) for c in comps), grid))
    plan.append(('obj', rec, d, comps, (kx, ky), (mx, my), setter, f_now, flag, regular))
    if setter:
        lines.append('C03 setf ' + _fspec(case['f'])); plan.append(('ok', rec))


def lens_requests(case, obs, rec, rng, lines, plan):
    n0, p0 = len(lines), len(plan)
    try:
        _lens_requests(case, obs, rec, rng, lines, plan)
    except MachineryError:
        raise
    except Exception as ex:
        del lines[n0:], plan[p0:]
        lines.append('C03 alias')
        plan.append(('obj-fault', rec, '%s: %s' % (type(ex).__name__, ex)))


def obj_requests(case, obs, rec, rng, lines, plan, cur_ok):
    """A fault while observing the implementation (grids, planner inputs) is a broken correspondence, reported by compare_model."""
    n0, p0 = len(lines), len(plan)
    try:
        _obj_requests(case, obs, rec, rng, lines, plan, cur_ok)
    except MachineryError:
        raise
    except Exception as ex:
        del lines[n0:], plan[p0:]
        lines.append('C03 alias')
        plan.append(('obj-fault', rec, '%s: %s' % (type(ex).__name__, ex)))


def compare_obj(ctx, case, obs, item, resp):
    try:
        _compare_obj(ctx, case, obs, item, resp)
    except MachineryError:
        raise
    except Exception as ex:
        ctx.disagree('C03 object tie: fault while observing the running code', {'case': case, 'error': '%s: %s' % (type(ex).__name__, ex)})


def _nft_precompute():
    try:
        import hcipy
        return bool(hcipy.Configuration().fourier.nft.precompute_matrices)
    except Exception:
        return False


def _compare_obj(ctx, case, obs, item, resp):
    import hcipy
    _, rec, d, comps, (kx, ky), (mx, my), setter, f_now, flag, regular = item
    p = case['pupil']
    pg, fg, prop = obs['pupil_grid'], obs['focal_grid'], obs['prop']
    kv = _kv(resp)
    lam = rec['lam']
    if rec.get('nearmiss_band') and not setter:
        ctx.count('skipped:obj-on-nearmiss-within-code-tolerance')
        return
    ts = {'scalar': (), 'scalar-stokes': (), 'jones': (2,), 'matrix': (2, 2)}[case['wf']]
    nx = p['dims'][0]
    gin, gout = (pg, fg) if d == 'fwd' else (fg, pg)
    win, wout = (nx, mx) if d == 'fwd' else (mx, nx)
    e = np.zeros(ts + (gin.size,), dtype=complex)
    src = [comps[0]] if case['wf'] == 'scalar-stokes' else comps
    for t, (ix, iy, a) in enumerate(src):
        e.reshape(-1, gin.size)[t, iy * win + ix] = float(a)
    wf = make_wavefront(case, hcipy.Field(e, gin), lam)

    def as_arg(spec):
        if spec['kind'] == 'callable':
            a, b = spec['a'], spec['b']
            return lambda wl: a + b * wl
        return spec['a']
    what = 'obj %s%s' % (d, ' after-setter' if setter else '')
    try:
        if setter:
            prop.focal_length = as_arg(setter)
        try:
            out = prop.forward(wf) if d == 'fwd' else prop.backward(wf)
            real_ft = type(prop.get_instance_data(pg, None, lam).fourier_transform).__name__
        finally:
            if setter:
                prop.focal_length = as_arg(case['f'])
    except Exception as ex:
        ctx.disagree('C03 object tie: the running code raised', {'case': case, 'lam': lam, 'dir': d, 'setter': setter, 'error': '%s: %s' % (type(ex).__name__, ex)})
        return
    got = np.asarray(out.electric_field).reshape(-1, gout.size)[:, ky * wout + kx]
    vals = kv['vals'].split(';')
    real = {'FastFourierTransform': 'fft', 'MatrixFourierTransform': 'mft', 'NaiveFourierTransform': 'naive'}.get(real_ft, real_ft)
    ctx.count('obj:%s %s model=%s code=%s%s' % (d, case['wf'], kv['method'], real, ' after-setter' if setter else ''))
    if len(vals) != len(got):
        ctx.disagree('C03 object tie: number of tensor components', {'case': case, 'model': len(vals), 'impl': len(got)})
        return
    for t, (v, g) in enumerate(zip(vals, got)):
        c_, t_ = v.split(':')
        ph = 2 * math.pi * float(parse_rat(t_))
        want = float(parse_rat(c_)) * complex(math.cos(ph), math.sin(ph))
        if not abs(complex(g) - want) <= TOL * abs(want):
            ctx.count('DISAGREE %s component model=%s code=%s' % (what, kv['method'], real))
            ctx.disagree('C03 object tie (%s, %s, model method %s, code %s)' % (what, case['wf'], kv['method'], real),
                         {'case': case, 'lam': lam, 'dir': d, 'component': t, 'comps': [[c[0], c[1], str(c[2])] for c in comps],
                          'index': [kx, ky], 'setter': setter, 'impl': str(complex(g)), 'model': str(want)})
            break
    if float(parse_rat(kv['lam'])) != out.wavelength:
        ctx.disagree('C03 object tie: wavelength of the result', {'case': case, 'model': kv['lam'], 'impl': repr(out.wavelength)})
    sv = out.input_stokes_vector
    if (kv['stokes'] == '-') != (sv is None) or (sv is not None and [float(x) for x in parse_rat_list(kv['stokes'])] != [float(x) for x in sv]):
        ctx.disagree('C03 object tie: Stokes vector of the result', {'case': case, 'model': kv['stokes'], 'impl': None if sv is None else [float(x) for x in sv]})
    if regular:
        expect = 'mft' if flag is None else real
    else:
        expect = 'mft' if case['focal']['kind'] == 'separated' else 'naive'
    if kv['method'] != expect or real != expect:
        ctx.count('DISAGREE obj method model=%s code=%s' % (kv['method'], real))
        ctx.disagree('C03 object tie: method selection', {'case': case, 'lam': lam, 'model': kv['method'], 'impl': real_ft, 'setter': setter,
                                                        'float_native_and_planner': flag})


def model_requests(case, obs, rng):
    """Request lines for one case and a plan describing how to compare the answers."""
    p = case['pupil']
    lines, plan = [], []
    lines.append('C03 session %s [%d,%d] %s %s' % (rat_list(p['delta']), p['dims'][0], p['dims'][1], rat_list(p['zero']), _fspec(case['f'])))
    plan.append(('ok', None))
    fo = case['focal']
    pg, fg = obs['pupil_grid'], obs['focal_grid']
    for rec in obs['per_lam']:
        if rec.get('raised'):
            continue
        lam, f = rec['lam'], rec['f']
        lines.append('C03 setup %s %s %s %s %s' % (rat(lam), rat(f), rat_list(p['delta']), '[%d,%d]' % tuple(p['dims']), rat_list(p['zero'])))
        plan.append(('setup', rec))
        regular = fg.is_regular and fg.is_('cartesian')
        if fo['kind'] == 'ffpg':
            lines.append('C03 ffpg %s %s %s' % (rat(fo['q']), '-' if fo['num_airy'] is None else rat(fo['num_airy']), rat(Fraction(fo['f']) * Fraction(fo['lam']))))
            plan.append(('grid', rec))
            if fo.get('mirror'):
                lines.append('C03 mirror [%d,%d]' % tuple(fo['mirror'])); plan.append(('mirror', rec, 'intermediate' if fo.get('stretch') else 'last'))
            if fo.get('stretch'):
                lines.append('C03 mirror %s' % rat_list(fo['stretch'])); plan.append(('mirror', rec))
            lines.append('C03 focal cur'); plan.append(('focal', rec))
        elif fo['kind'] == 'mfg':
            diam = fo['diam'] if isinstance(fo['diam'], list) else [fo['diam']] * 2
            sr = [Fraction(fo['f']) / Fraction(d) * Fraction(fo['lam']) for d in diam]
            # the code computes f_number = f / D then * wavelength in floats; keep cases where that is exact
            lines.append('C03 mkfocal %s %s %s' % (rat_list([fo['q']] * 2), rat_list([fo['num_airy']] * 2), rat_list(sr)))
            plan.append(('grid', rec))
            if fo.get('mirror'):
                lines.append('C03 mirror [%d,%d]' % tuple(fo['mirror'])); plan.append(('mirror', rec, 'intermediate' if fo.get('stretch') else 'last'))
            if fo.get('stretch'):
                lines.append('C03 mirror %s' % rat_list(fo['stretch'])); plan.append(('mirror', rec))
            lines.append('C03 focal cur'); plan.append(('focal', rec))
        elif regular:
            d, n, z = obs['exact']
            lines.append('C03 focal %s [%d,%d] %s' % (rat_list(d), n[0], n[1], rat_list(z)))
            plan.append(('focal', rec))
        # impulse responses at a few (pupil index, focal index) pairs
        npairs = min(4, fg.size)
        for _ in range(npairs):
            jx, jy = int(rng.integers(0, p['dims'][0])), int(rng.integers(0, p['dims'][1]))
            kf = int(rng.integers(0, fg.size))
            if regular:
                kx, ky = kf % int(fg.dims[0]), kf // int(fg.dims[0])
                lines.append('C03 impulse-idx [%d,%d] [%d,%d]' % (jx, jy, kx, ky))
            else:
                c = fg.as_('cartesian')
                if fg.is_('cartesian'):
                    lines.append('C03 impulse-at [%d,%d] %s' % (jx, jy, rat_list([float(c.x[kf]), float(c.y[kf])])))
                else:
                    continue        # polar -> cartesian conversion is not rational
            plan.append(('impulse', rec, jx, jy, kf))
        lens_requests(case, obs, rec, rng, lines, plan)
        obj_requests(case, obs, rec, rng, lines, plan, cur_ok=(fo['kind'] in ('ffpg', 'mfg') or (regular and obs['exact'] is not None)))
    return lines, plan


def compare_model(ctx, case, obs, plan, answers):
    import hcipy
    p = case['pupil']
    pg, fg, prop = obs['pupil_grid'], obs['focal_grid'], obs['prop']
    cur_grid_ok = True
    for item, resp in zip(plan, answers):
        kind, rec = item[0], item[1]
        if kind == 'ok':
            if resp != 'ok':
                ctx.disagree('C03 model rejected a session/setter request', {'case': case, 'model': resp})
            continue
        if kind == 'obj-fault':
            ctx.disagree('C03 object tie: fault while observing the running code', {'case': case, 'error': item[2]})
            continue
        ctx.traces_validated += 1
        if rec is not None and rec.get('wkey_collision') is not None:
            # the object serves this wavelength with the instance of another one (known finding): nothing to tie
            if kind == 'setup':
                ctx.boundary_skipped += 1
                ctx.count('skipped:wavelength-key-collision')
            continue
        if rec is not None and rec.get('shift_dropped') is not None and kind in ('lens', 'obj', 'impulse'):
            # values of an FFT whose small shift the code drops (finding D303): the oracle reports it, nothing to tie
            if kind == 'lens':
                ctx.boundary_skipped += 1
            ctx.count('skipped:%s-on-fft-small-shift-dropped(D303)' % kind)
            continue
        if kind == 'obj':
            if cur_grid_ok or not item[9]:
                compare_obj(ctx, case, obs, item, resp)
            continue
        if kind == 'setup':
            kv = _kv(resp)
            re_, im_ = kv['norm'].split(':')
            nf = complex(float(parse_rat(re_)), float(parse_rat(im_)))
            if not _close(nf.real, rec['norm_factor'].real) or not _close(nf.imag, rec['norm_factor'].imag):
                ctx.disagree('C03 norm_factor', {'case': case, 'impl': str(rec['norm_factor']), 'model': kv['norm']})
            if not _close(float(parse_rat(kv['wp'])), float(np.asarray(pg.weights).ravel()[0])):
                ctx.disagree('C03 pupil weight', {'case': case, 'model': kv['wp']})
            cur_grid_ok = True
        elif kind == 'grid':
            kv = _kv(resp)
            dims = [int(x) for x in parse_rat_list(kv['dims'])]
            slack = [float(x) for x in parse_rat_list(kv['slack'])]
            real_dims = [int(d) for d in fg.dims]
            if dims != real_dims:
                if all(a == b or sl < 1e-7 for a, b, sl in zip(dims, real_dims, slack)):
                    # exact integer (or nearly) recomputed in floats by make_fft_grid: finding D4 (owned by C01)
                    ctx.boundary_skipped += 1
                    ctx.count('skipped:float-truncated-dims(D4)')
                else:
                    ctx.disagree('C03 focal constructor dims', {'case': case, 'impl': [int(d) for d in fg.dims], 'model': dims})
                cur_grid_ok = False
                continue
            sg = [a_ * b_ for a_, b_ in zip(case['focal'].get('mirror') or [1, 1], case['focal'].get('stretch') or [1, 1])]
            d = [float(x) * s_ for x, s_ in zip(parse_rat_list(kv['delta']), sg)]
            z = [float(x) * s_ for x, s_ in zip(parse_rat_list(kv['zero']), sg)]
            if not all(_close(a, float(b)) for a, b in zip(d, fg.delta)) or not all(_close(a, float(b), 1e-10) for a, b in zip(z, fg.zero)):
                ctx.disagree('C03 focal constructor grid', {'case': case, 'impl': [list(map(float, fg.delta)), list(map(float, fg.zero))], 'model': [d, z]})
                cur_grid_ok = False
        elif kind == 'mirror':
            if not cur_grid_ok or (len(item) > 2 and item[2] == 'intermediate'):
                continue
            kv = _kv(resp)
            d = [float(x) for x in parse_rat_list(kv['delta'])]
            z = [float(x) for x in parse_rat_list(kv['zero'])]
            if not all(_close(a, float(b)) for a, b in zip(d, fg.delta)) or not all(_close(a, float(b), 1e-10) for a, b in zip(z, fg.zero)):
                ctx.disagree('C03 mirrored focal grid (grid.scaled per axis)', {'case': case, 'impl': [list(map(float, fg.delta)), list(map(float, fg.zero))], 'model': [d, z]})
                cur_grid_ok = False
        elif kind == 'focal':
            if not cur_grid_ok:
                continue
            kv = _kv(resp)
            uv = rec['uv_grid']
            two_pi = 2 * math.pi
            ud = [two_pi * float(x) for x in parse_rat_list(kv['uvdelta'])]
            uz = [two_pi * float(x) for x in parse_rat_list(kv['uvzero'])]
            if not all(_close(a, float(b)) for a, b in zip(ud, uv.delta)) or not all(_close(a, float(b), 1e-10) for a, b in zip(uz, uv.zero)):
                ctx.disagree('C03 uv grid', {'case': case, 'lam': rec['lam'], 'impl': [list(map(float, uv.delta)), list(map(float, uv.zero))], 'model': [ud, uz]})
            wf_model = float(parse_rat(kv['wfac'])) * two_pi ** 2
            wf_impl = float(np.asarray(uv.weights).ravel()[0]) / float(np.asarray(fg.weights).ravel()[0])
            if not _close(wf_model, wf_impl, 1e-10):
                ctx.disagree('C03 uv weights', {'case': case, 'impl': wf_impl, 'model': wf_model})
            cls = kv['class']
            ctx.count('class:%s/%s' % (cls, rec['ft']))
            neg_axes = sum(1 for x in parse_rat_list(kv['uvdelta']) if x < 0)
            if neg_axes:
                # orientation class: a uv grid with negative spacing on an axis is never a native FFT grid
                ctx.count('uv-grid-mirrored-axes:%d class:%s/%s' % (neg_axes, cls, rec['ft']))
                if cls != 'other' or rec['ft'] == 'FastFourierTransform':
                    ctx.disagree('C03 mirrored uv grid accepted as FFT grid', {'case': case, 'lam': rec['lam'], 'model': cls, 'impl': rec['ft']})
            fo_ = case['focal']
            if (fo_['kind'] == 'ffpg' and fo_['num_airy'] is None and Fraction(fo_['q']) >= 1 and not fo_.get('mirror') and not fo_.get('stretch')
                    and Fraction(rec['lam']) * Fraction(rec['f']) == Fraction(fo_['f']) * Fraction(fo_['lam'])):
                # theorem focalFromPupil_full_conjugate: the constructor's grid (full field of view, q >= 1) is a full
                # conjugate at the lam*f it was built for -- for the model's grid, which was just compared with the code's
                ctx.count('theorem:ffpg(q>=1)-is-full-conjugate')
                if cls != 'full':
                    ctx.disagree('C03 constructor grid not classified full (focalFromPupil_full_conjugate)',
                                 {'case': case, 'lam': rec['lam'], 'model': cls})
            # near-miss class: exact slack |q N - round(q N)| per axis; `tolclass` = the class under the code's own 1e-10 test
            slack = [float(x) for x in parse_rat_list(kv['slack'])]
            smax = max(slack) if slack else 0.0
            is_fft = rec['ft'] == 'FastFourierTransform'
            band = cls == 'other' and (kv['tolclass'] != 'other' or 0.99e-10 <= smax <= 1.01e-10)
            nm = case.get('nearmiss')
            if nm or 0 < smax < 2.0 ** -9:
                kb = 'k=%d..%d' % (10 * (nm['k'] // 10), 10 * (nm['k'] // 10) + 9) if nm else 'incidental'
                ctx.count('nearmiss:%s %s %s class:%s/%s%s' % (nm['via'] if nm else '-', kb, case['focal']['kind'], cls, rec['ft'],
                                                              ' allclose-would-accept' if cls == 'other' and kv['allclose'] != 'other' else ''))
            if band:
                # within the tolerance of the code's own float test: the code may treat the grid as native; not judged by the tie
                # (the direct-sum oracle still applies at 1e-9)
                rec['nearmiss_band'] = True
                ctx.boundary_skipped += 1
                ctx.count('skipped:nearmiss-within-code-tolerance(1e-10) code=%s' % rec['ft'])
            else:
                if cls == 'other' and smax > 0 and is_fft:
                    ctx.disagree('C03 near-miss grid accepted as FFT grid', {'case': case, 'lam': rec['lam'], 'model': cls, 'impl': rec['ft'],
                                                                               'exact_slack': kv['slack'], 'fft_would_evaluate_on_delta': kv['snapdelta']})
                if (cls == 'full') != rec['full']:
                    ctx.disagree('C03 full-conjugate classification', {'case': case, 'lam': rec['lam'], 'model': cls, 'oracle_full': rec['full']})
                native = bool(hcipy.is_fft_grid(uv, pg))
                if not native and cls in ('full', 'native'):
                    # get_fft_parameters compares floats without tolerance (q < 1, dims) and then falls back to the MFT,
                    # which evaluates the same sum: recorded, not a disagreement
                    ctx.count('native-by-exact-arithmetic-but-rejected-by-float-test')
                if native and cls == 'other':
                    ctx.disagree('C03 native-FFT-grid classification', {'case': case, 'lam': rec['lam'], 'model': cls, 'impl_is_fft_grid': bool(native),
                                                                          'exact_slack': kv['slack']})
                if cls == 'other' and is_fft:
                    ctx.disagree('C03 method selection', {'case': case, 'model': cls, 'impl': rec['ft'], 'exact_slack': kv['slack']})
            if cls == 'full' and rec.get('gain') is not None and not rec.get('d4'):
                g = float(parse_rat(kv['gain']))
                if g != 1.0 or not _close(g, rec['gain'], 1e-9):
                    ctx.disagree('C03 power gain', {'case': case, 'lam': rec['lam'], 'model': kv['gain'], 'impl': rec['gain']})
        elif kind == 'lens':
            if not cur_grid_ok:
                continue
            _, rec, d, jx, jy, kf, cheaper, flag = item
            kv = _kv(resp)
            c_, t_ = kv['val'].split(':')
            ph = 2 * math.pi * float(parse_rat(t_))
            want = float(parse_rat(c_)) * complex(math.cos(ph), math.sin(ph))
            jf = jy * p['dims'][0] + jx
            if d == 'fwd':
                e = pg.zeros(dtype=complex)
                e[jf] = 1.0
                got = complex(np.asarray(prop.forward(hcipy.Wavefront(e, rec['lam'])).electric_field)[kf])
            else:
                e = fg.zeros(dtype=complex)
                e[kf] = 1.0
                got = complex(np.asarray(prop.backward(hcipy.Wavefront(e, rec['lam'])).electric_field)[jf])
            real = {'FastFourierTransform': 'fft', 'MatrixFourierTransform': 'mft', 'NaiveFourierTransform': 'naive'}.get(rec['ft'], rec['ft'])
            ctx.count('lens:%s model=%s code=%s' % (d, kv['method'], real))
            if rec.get('nearmiss_band'):
                ctx.count('skipped:lens-on-nearmiss-within-code-tolerance')
                continue
            if not abs(got - want) <= TOL * abs(want):
                ctx.count('DISAGREE lens pipeline %s model=%s code=%s' % (d, kv['method'], real))
                ctx.disagree('C03 lens pipeline (%s, model method %s, code %s)' % (d, kv['method'], real),
                             {'case': case, 'lam': rec['lam'], 'dir': d, 'pupil_index': [jx, jy], 'focal_index': kf,
                              'impl': str(got), 'model': str(want), 'model_method': kv['method'], 'impl_class': rec['ft']})
            if flag == 'sep' or flag is None:
                expect = 'mft'
                if flag is None:
                    ctx.count('lens:uv-grid-not-accepted-by-get_fft_parameters')
            elif cheaper == int(flag):
                expect = real
            else:
                expect = None          # the other planner outcome: only the numbers are compared
            if expect is not None and (kv['method'] != expect or real != expect):
                ctx.count('DISAGREE lens method model=%s code=%s' % (kv['method'], real))
                ctx.disagree('C03 lens method selection', {'case': case, 'lam': rec['lam'], 'model': kv['method'], 'impl': rec['ft'],
                                                           'cheaper': cheaper, 'float_native_and_planner': flag})
        elif kind == 'impulse':
            if not cur_grid_ok:
                continue
            if rec.get('d4'):
                ctx.count('skipped:impulse-on-D4-affected-sizes')
                continue
            if rec.get('nearmiss_band'):
                ctx.count('skipped:impulse-on-nearmiss-within-code-tolerance')
                continue
            _, rec, jx, jy, kf = item
            kv = _kv(resp)
            amp = float(parse_rat(kv['amp']))
            t = parse_rat(kv['turns'])
            ph = 2 * math.pi * float(t)
            want = amp * complex(math.cos(ph), math.sin(ph))
            e = pg.zeros(dtype=complex)
            e[jy * p['dims'][0] + jx] = 1.0
            got = complex(np.asarray(prop.forward(hcipy.Wavefront(e, rec['lam'])).electric_field)[kf])
            if not abs(got - want) <= TOL * abs(want):
                ctx.disagree('C03 impulse response', {'case': case, 'lam': rec['lam'], 'pupil_index': [jx, jy], 'focal_index': kf,
                                                      'impl': str(got), 'model': str(want)})



# ---------------------------------------------------------------------------------------------
# one propagator object used repeatedly (forward / backward / forward, alternating precisions, several
# wavelengths, focal_length re-assigned between calls): every result is still the Fourier integral for the
# *current* parameters

TOL64 = 2e-4


def adjoint_sum(pupil_grid, focal_grid, E, lam, f, cache=None):
    """backward: i/(lam f) sum_x E(x) w(x) exp(+2 pi i x.u/(lam f)) at every pupil point u (long double)."""
    w = np.asarray(focal_grid.weights, dtype=LD) * np.ones(focal_grid.size, dtype=LD)
    lf = LD(lam) * LD(f)
    K = np.conj(kernel(pupil_grid, focal_grid, lam, f, cache)).T
    Ew = (np.asarray(E, dtype=np.clongdouble) * w).reshape(-1, focal_grid.size)
    return (K @ Ew.T).T * 1j / lf


def _spec(rng):
    if rng.random() < 0.5:
        return {'kind': 'const', 'a': _dy(rng, 1 / 4, 4, 2)}
    return {'kind': 'callable', 'a': _dy(rng, 1 / 4, 2, 2), 'b': _dy(rng, 1 / 4, 2, 2)}


def gen_session(rng, big=False):
    r = rng.random()
    if r < 0.4:
        # cropped FFT conjugates with more focal than pupil pixels, large enough for the FFT to be selected
        nx = int(rng.integers(8, 13 if not big else 19))
        ny = nx if rng.random() < 0.6 else int(rng.integers(8, 13 if not big else 19))
        q = int(rng.integers(3, 5))
        dx = _dy(rng, 1 / 16, 1 / 4, 5)
        pupil = {'delta': [dx, dx], 'dims': [nx, ny], 'zero': [-dx * (nx - 1) / 2, -dx * (ny - 1) / 2]}
        lam0 = _dy(rng, 1 / 4, 2, 2)
        f = _spec(rng)
        f0 = f_value(f, lam0)
        M = [q * nx, q * ny]
        crop = [int(rng.integers(0, M[0] // 3)), int(rng.integers(0, M[1] // 3))]
        if rng.random() < 0.8 and crop == [0, 0]:
            crop = [1, 2]
        focal = {'kind': 'conj', 'M': M, 'f': f0, 'lam': lam0, 'crop': crop, 'shift': [0, 0]}
        lams = [lam0] if rng.random() < 0.6 else [lam0, _dy(rng, 1 / 4, 2, 2)]
        wfk = ['scalar', 'scalar', 'jones'][int(rng.integers(0, 3))]
        case = {'pupil': pupil, 'lams': sorted(set(lams)), 'f': f, 'focal': focal, 'wf': wfk, 'stokes': None,
                'fseed': int(rng.integers(0, 2 ** 31))}
    else:
        case = gen_case(rng)
        # two wavelengths that share a key of the instance cache (finding `wavelength-key-collision`) are oracle_case's subject
        case['lams'] = noncolliding(case['lams'])
    lams = case['lams']
    ops = []
    n = int(rng.integers(3, 9))
    style = ['fbf', 'setter', 'precision', 'mixed'][int(rng.integers(0, 4))]
    for i in range(n):
        lam = lams[int(rng.integers(0, len(lams)))]
        dt = 'c128'
        if style in ('precision', 'mixed') and rng.random() < 0.5:
            dt = 'c64'
        if style == 'fbf':
            kind = ['fwd', 'bwd', 'fwd', 'fwd', 'bwd'][i % 5]
        else:
            kind = 'fwd' if rng.random() < 0.65 else 'bwd'
        if style in ('setter', 'mixed') and i > 0 and rng.random() < 0.45:
            ops.append({'op': 'setf', 'f': _spec(rng)})
        ops.append({'op': kind, 'lam': lam, 'dtype': dt, 'salt': i, 'chain': bool(rng.random() < 0.3)})
    # always end with a double-precision forward at the first wavelength
    ops.append({'op': 'fwd', 'lam': lams[0], 'dtype': 'c128', 'salt': 99})
    return {'case': case, 'ops': ops, 'style': style}


def directed_sessions():
    out = []
    for nx, ny, q, crop in ((16, 16, 4, [8, 8]), (12, 9, 3, [6, 1]), (10, 10, 4, [1, 1])):
        dx = 1 / 16
        pupil = {'delta': [dx, dx], 'dims': [nx, ny], 'zero': [-dx * (nx - 1) / 2, -dx * (ny - 1) / 2]}
        focal = {'kind': 'conj', 'M': [q * nx, q * ny], 'f': 2.0, 'lam': 0.5, 'crop': crop, 'shift': [0, 0]}
        case = {'pupil': pupil, 'lams': [0.5], 'f': {'kind': 'const', 'a': 2.0}, 'focal': focal, 'wf': 'scalar', 'stokes': None, 'fseed': 11}
        out.append({'case': case, 'style': 'fbf', 'ops': [
            {'op': 'fwd', 'lam': 0.5, 'dtype': 'c128', 'salt': 0}, {'op': 'bwd', 'lam': 0.5, 'dtype': 'c128', 'salt': 1},
            {'op': 'fwd', 'lam': 0.5, 'dtype': 'c128', 'salt': 2}, {'op': 'fwd', 'lam': 0.5, 'dtype': 'c128', 'salt': 3}]})
        out.append({'case': dict(case, f={'kind': 'const', 'a': 2.0}), 'style': 'setter', 'ops': [
            {'op': 'fwd', 'lam': 0.5, 'dtype': 'c128', 'salt': 0}, {'op': 'setf', 'f': {'kind': 'const', 'a': 3.0}},
            {'op': 'fwd', 'lam': 0.5, 'dtype': 'c128', 'salt': 1}, {'op': 'setf', 'f': {'kind': 'callable', 'a': 1.0, 'b': 1.0}},
            {'op': 'bwd', 'lam': 0.5, 'dtype': 'c128', 'salt': 2}, {'op': 'fwd', 'lam': 0.5, 'dtype': 'c128', 'salt': 3}]})
        out.append({'case': case, 'style': 'precision', 'ops': [
            {'op': 'fwd', 'lam': 0.5, 'dtype': 'c64', 'salt': 0}, {'op': 'fwd', 'lam': 0.5, 'dtype': 'c128', 'salt': 1},
            {'op': 'bwd', 'lam': 0.5, 'dtype': 'c64', 'salt': 2}, {'op': 'bwd', 'lam': 0.5, 'dtype': 'c128', 'salt': 3},
            {'op': 'fwd', 'lam': 0.5, 'dtype': 'c128', 'salt': 4}]})
    return out


def _focal_field(case, grid, salt, dtype):
    import hcipy
    rng = np.random.default_rng([case['fseed'], 1000 + salt])
    ts = {'scalar': (), 'scalar-stokes': (), 'jones': (2,), 'matrix': (2, 2)}[case['wf']]
    re = rng.integers(-8, 9, size=ts + (grid.size,)) / 4.0
    im = rng.integers(-8, 9, size=ts + (grid.size,)) / 4.0
    return hcipy.Field(((re + 1j * im) * amp_factors(case, ts, c64=(dtype == np.complex64))).astype(dtype), grid)


def oracle_session(sess, observe=None):
    """One FraunhoferPropagator object through the whole op sequence. Returns [(key, what)]."""
    import hcipy
    case = sess['case']
    bad = []
    pupil_grid = build_pupil(case)
    focal_grid, exact = build_focal(case, pupil_grid)
    if focal_grid.size == 0:
        return bad

    def as_arg(spec):
        if spec['kind'] == 'callable':
            a, b = spec['a'], spec['b']
            return lambda wl: a + b * wl
        return spec['a']
    cur = case['f']
    snap = grid_snapshot(pupil_grid, focal_grid)
    prop = hcipy.FraunhoferPropagator(pupil_grid, focal_grid, focal_length=as_arg(cur))
    prev = 'fresh'
    log = []
    kcache = {}
    kept = []
    wfs, calls = [], []          # every wavefront object in order of creation / the call history (object-identity tie)
    for op in sess['ops']:
        if op['op'] == 'setf':
            cur = op['f']
            prop.focal_length = as_arg(cur)
            prev = prev + '>setf'
            log.append(('setf', cur))
            continue
        lam = op['lam']
        f = f_value(cur, lam)
        d4 = d4_affected(pupil_grid, focal_grid, lam, f)
        dtype = np.complex64 if op['dtype'] == 'c64' else np.complex128
        tol = TOL64 if op['dtype'] == 'c64' else TOL
        try:
            if op['op'] == 'fwd':
                fld = make_field(case, pupil_grid).astype(dtype) * dtype(1 + 0.25 * (op['salt'] % 3))
                fld = hcipy.Field(np.asarray(fld).astype(dtype), pupil_grid)
                wf = make_wavefront(case, fld, lam)
                e_in = np.asarray(wf.electric_field).copy()
                out = prop.forward(wf)
                ref = direct_sum(pupil_grid, focal_grid, e_in, lam, f, kcache)
                got = np.asarray(out.electric_field).reshape(-1, focal_grid.size)
            else:
                fld = _focal_field(case, focal_grid, op['salt'], dtype)
                wf = make_wavefront(case, fld, lam)
                e_in = np.asarray(wf.electric_field).copy()
                out = prop.backward(wf)
                ref = adjoint_sum(pupil_grid, focal_grid, e_in, lam, f, kcache)
                got = np.asarray(out.electric_field).reshape(-1, pupil_grid.size)
        except Exception as e:
            if not d4:
                bad.append(('reuse raises %s' % type(e).__name__, '%s raised %s: %s after %s' % (op['op'], type(e).__name__, e, prev)))
            prev = prev + '>' + op['op']
            continue
        # results are values: earlier results unchanged, no memory shared with earlier results / input / internals
        garr = np.asarray(out.electric_field)
        wfs += [wf, out]
        calls.append('f1' if case['stokes'] is not None else 'f0')
        sv_out = out.input_stokes_vector
        if sv_out is not None and (np.shares_memory(sv_out, wf.input_stokes_vector) or any(
                k[0].input_stokes_vector is not None and np.shares_memory(sv_out, k[0].input_stokes_vector) for k in kept)):
            bad.append(('result-aliases-stokes-vector', 'the Stokes vector of the returned wavefront is the same ndarray as that of its input or of an earlier result (history %s)' % prev))
        bad += results_still_valid(kept, 'after %s (history %s)' % (op['op'], prev))
        bad += result_is_independent(prop, pupil_grid, lam, garr, np.asarray(wf.electric_field), kept, prev)
        kept.append((out, garr.copy(), '%s #%d' % (op['op'], len(kept))))
        if op.get('chain') and not d4:
            # feed the result straight back into the same object (forward -> backward, backward -> forward)
            try:
                if op['op'] == 'fwd':
                    out2 = prop.backward(out)
                    ref2 = adjoint_sum(pupil_grid, focal_grid, kept[-1][1], lam, f, kcache)
                    got2 = np.asarray(out2.electric_field).reshape(-1, pupil_grid.size)
                else:
                    out2 = prop.forward(out)
                    ref2 = direct_sum(pupil_grid, focal_grid, kept[-1][1], lam, f, kcache)
                    got2 = np.asarray(out2.electric_field).reshape(-1, focal_grid.size)
                if op['op'] == 'fwd':
                    e2 = rel_err(got2, ref2, kept[-1][1], focal_grid.weights, lam * f)
                else:
                    e2 = rel_err(got2, ref2, kept[-1][1], pupil_grid.weights, lam * f)
                if not e2 <= tol * 10:
                    bad.append(('reuse-chained after-' + op['op'], 'feeding the result of %s straight back into the same propagator differs from the direct sum by %.3g (history %s)' % (op['op'], e2, prev)))
                bad += results_still_valid(kept, 'after chained call (history %s)' % prev)
                bad += result_is_independent(prop, pupil_grid, lam, np.asarray(out2.electric_field), garr, kept, prev)
                kept.append((out2, np.asarray(out2.electric_field).copy(), 'chained #%d' % len(kept)))
                calls.append('c%d' % (len(wfs) - 1))
                wfs.append(out2)
            except Exception as e:
                bad.append(('reuse raises %s' % type(e).__name__, 'chained call raised %s: %s after %s' % (type(e).__name__, e, prev)))
        scale = float(np.abs(ref).max())
        err = rel_err(got, ref, e_in, pupil_grid.weights if op['op'] == 'fwd' else focal_grid.weights, lam * f)
        hist = prev.split('>')
        last = hist[-1]
        had64 = 'c64' in prev
        if not err <= tol and not d4:
            key = 'reuse-%s after-%s%s' % ('forward' if op['op'] == 'fwd' else 'backward', last, '+earlier-c64' if had64 and op['dtype'] == 'c128' else '')
            bad.append((key, '%s #%d on a reused propagator (history %s) differs from the %s sum for the current focal length by %.3g (scale %.3g, lam=%r f=%r, %s)'
                        % (op['op'], len(log), prev, 'Fourier' if op['op'] == 'fwd' else 'adjoint Fourier', err, scale, lam, f, op['dtype'])))
        if out.wavelength != lam:
            bad.append(('wavelength-carried', 'reused propagator changed the wavelength'))
        norm = None
        if observe is not None:
            norm = complex(prop.get_instance_data(pupil_grid, None, lam).norm_factor)
        log.append((op['op'], lam, f, norm, d4))
        prev = prev + '>' + op['op'] + ('(c64)' if op['dtype'] == 'c64' else '')
    bad += inputs_unchanged(snap, pupil_grid, focal_grid)
    if observe is not None:
        observe.update({'log': log, 'pupil_grid': pupil_grid, 'focal_grid': focal_grid, 'wfs': wfs, 'calls': calls})
    return bad


def results_still_valid(kept, when):
    for wfres, snapshot, label in kept:
        now = np.asarray(wfres.electric_field)
        if now.shape != snapshot.shape or not np.array_equal(now, snapshot):
            return [('result-overwritten', 'the wavefront returned by %s changed %s' % (label, when))]
    return []


def result_is_independent(prop, pupil_grid, lam, g, x, kept, prev):
    bad = []
    if any(np.shares_memory(g, np.asarray(k[0].electric_field)) for k in kept):
        bad.append(('result-aliases-earlier-result', 'a returned field shares memory with a field returned earlier (history %s)' % prev))
    if np.shares_memory(g, x):
        bad.append(('result-aliases-input', 'the returned field shares memory with the input field (history %s)' % prev))
    try:
        ft = prop.get_instance_data(pupil_grid, None, lam).fourier_transform
        internals = [v for v in vars(ft).values() if isinstance(v, np.ndarray)]
    except Exception:
        internals = []
    if any(np.shares_memory(g, v) for v in internals):
        bad.append(('result-aliases-internal-array', 'the returned field is a view of an internal array of the Fourier transform (history %s)' % prev))
    return bad


def session_requests(sess, obs):
    p = sess['case']['pupil']

    def spec(f):
        return 'const %s' % rat(f['a']) if f['kind'] == 'const' else 'affine %s %s' % (rat(f['a']), rat(f['b']))
    lines = ['C03 session %s [%d,%d] %s %s' % (rat_list(p['delta']), p['dims'][0], p['dims'][1], rat_list(p['zero']), spec(sess['case']['f']))]
    plan = [None]
    for item in obs.get('log', []):
        if item[0] == 'setf':
            lines.append('C03 setf ' + spec(item[1])); plan.append(None)
        else:
            lines.append('C03 at ' + rat(item[1])); plan.append(item)
    if obs.get('calls'):
        lines.append('C03 alias ' + ' '.join(obs['calls'])); plan.append(('alias', obs['wfs']))
    return lines, plan


def compare_alias(ctx, sess, wfs, resp):
    """Object identity: the ndarray objects the executed allocation model says a call history creates (all distinct: theorem
    calls_create_distinct_arrays) against np.shares_memory between the field / Stokes arrays of the real wavefronts."""
    kv = _kv(resp)
    refs = kv['ids'].split(';')
    if len(refs) != len(wfs):
        ctx.disagree('C03 object identity: number of wavefronts', {'session': sess, 'model': len(refs), 'impl': len(wfs)})
        return
    arrs, ids = [], []
    for r, w in zip(refs, wfs):
        fid, sid = r.split(':')
        sv = w.input_stokes_vector
        if (sid == '-') != (sv is None):
            ctx.disagree('C03 object identity: Stokes vector present', {'session': sess, 'model': r, 'impl': sv is not None})
            return
        arrs.append(np.asarray(w.electric_field)); ids.append(int(fid))
        if sv is not None:
            arrs.append(np.asarray(sv)); ids.append(int(sid))
    ctx.count('alias:arrays', len(arrs))
    if int(kv['arrays']) != len(arrs):
        ctx.disagree('C03 object identity: number of distinct ndarray objects', {'session': sess, 'model': kv['arrays'], 'impl': len(arrs)})
    for a in range(len(arrs)):
        for b in range(a + 1, len(arrs)):
            same_model = ids[a] == ids[b]
            same_real = bool(np.shares_memory(arrs[a], arrs[b]))
            if same_model != same_real:
                ctx.disagree('C03 object identity: arrays %d and %d of the call history %s' % (a, b, 'share memory in the running code but are distinct objects in the model'
                             if same_real else 'are one object in the model but distinct in the running code'), {'session': sess, 'model_ids': kv['ids']})
                return


def compare_session(ctx, sess, plan, answers):
    for item, resp in zip(plan, answers):
        if item is None:
            if resp != 'ok':
                raise MachineryError('model answered %r' % resp)
            continue
        ctx.traces_validated += 1
        if item[0] == 'alias':
            try:
                compare_alias(ctx, sess, item[1], resp)
            except MachineryError:
                raise
            except Exception as ex:
                ctx.disagree('C03 object identity: fault while observing the running code', {'session': sess, 'error': '%s: %s' % (type(ex).__name__, ex)})
            continue
        kv = _kv(resp)
        re_, im_ = kv['norm'].split(':')
        nf = complex(float(parse_rat(re_)), float(parse_rat(im_)))
        got = item[3]
        if not _close(nf.real, got.real) or not _close(nf.imag, got.imag) or not _close(float(parse_rat(kv['lamf'])), item[1] * item[2]):
            ctx.disagree('C03 instance after reuse', {'session': sess, 'lam': item[1], 'impl_norm_factor': str(got), 'model': resp})

# ---------------------------------------------------------------------------------------------

def run(ctx):
    ctx.rule = ('FraunhoferPropagator (fresh per pupil grid) on regular pupil grids (1..12 per axis, thorough ..20; square, '
                'non-square, off-centre), focal grids from make_focal_grid_from_pupil_grid / make_focal_grid / hand-built full, '
                'cropped and shifted FFT conjugates / arbitrary regular / separated / unstructured / polar-separated, 1-3 '
                'wavelengths per propagator, constant or callable focal length, scalar / Jones-vector / Jones-matrix(+Stokes) '
                'wavefronts with dyadic samples. Oracle: long-double direct sum at every focal point, power and inverse on full '
                'conjugates, wavelength/Stokes carried. Non-trivial = pupil with >= 2 points and a focal grid with >= 2 points; '
                'distinct by (pupil dims, focal kind, focal size, wavefront kind, #wavelengths, callable f).')
    ctx.assumptions += ['numpy long double evaluates the reference sum to well below 1e-9',
                        'q with q*N integral is used for make_focal_grid_from_pupil_grid (float-truncated padded sizes are finding D4, owned by C01; counted when met)',
                        'a fresh propagator is built per pupil grid (instance-cache reuse is finding D3, owned by C05)']
    n = ctx.scale(700, 9000)
    cases = directed() + [gen_case(ctx.rng, big=(ctx.tier == 'thorough' and k % 4 == 0)) for k in range(n)]
    all_lines, spans, kept = [], [], []
    with warnings.catch_warnings():
        warnings.simplefilter('ignore')
        for case in cases:
            obs = {}
            bad = oracle_case(case, observe=obs)
            for key, what in bad:
                ctx.violation(key, what, case)
            fg = obs['focal_grid']
            if fg.size == 0:
                ctx.count('skipped:empty-focal-grid')
                continue
            ctx.count('focal:' + case['focal']['kind'])
            if case['focal'].get('alias'):
                ctx.count('aliased-focal-arrays:' + case['focal']['kind'])
            if case['pupil'].get('alias'):
                ctx.count('aliased-pupil-delta-zero')
            if case.get('shared'):
                ctx.count('grids-shared-with-second-propagator')
            ctx.count('wf:' + case['wf'])
            ctx.count('f:' + case['f']['kind'])
            if case['f']['a'] < 0:
                ctx.count('f:negative')
            fo_ = case['focal']
            if fo_.get('mirror') or fo_.get('reversed'):
                ctx.count('focal-orientation:%s %s f%s' % (fo_['kind'], 'reversed' if fo_.get('reversed') else 'scaled%s' % fo_['mirror'],
                                                         '<0' if case['f']['a'] < 0 else '>0'))
            if case.get('amp'):
                a_ = case['amp']
                ctx.count('amplitude:%s %s' % (case['wf'], 'uniform-faint(<=2^-27)' if max(a_) <= -27 else 'uniform-bright(>=2^27)' if min(a_) >= 27
                                               else 'uniform' if len(set(a_)) == 1 else 'components-differ'))
            for rec in obs['per_lam']:
                if rec.get('d4'):
                    ctx.count('D4-affected-sizes')
                    if rec.get('raised') or rec.get('d4_excused'):
                        ctx.count('skipped:D4-affected-failure')
                        ctx.boundary_skipped += 1
                if rec.get('raised'):
                    ctx.count('raised')
                    continue
                if rec.get('wkey_collision') is not None:
                    ctx.count('wavelength-key-collision err%s1e-9' % ('<=' if rec['err'] <= TOL else '>'))
                if rec.get('shift_dropped') is not None:
                    ctx.count('fft-small-shift-dropped(D303) err%s1e-9' % ('<=' if rec['err'] <= TOL else '>'))
                ctx.count('ft:' + rec['ft'])
                ctx.count('full-conjugate' if rec['full'] else 'not-full')
            ctx.count('pupil:' + ('square' if case['pupil']['dims'][0] == case['pupil']['dims'][1] else 'non-square'))
            sig = (tuple(case['pupil']['dims']), case['focal']['kind'], int(fg.size), case['wf'], len(case['lams']), case['f']['kind'])
            nontrivial = obs['pupil_grid'].size >= 2 and fg.size >= 2
            ctx.case({'pupil': case['pupil'], 'focal': case['focal'], 'wf': case['wf']} if nontrivial else None,
                     nontrivial_key=sig if nontrivial else None)
            lines, plan = model_requests(case, obs, ctx.rng)
            spans.append((len(all_lines), len(lines)))
            all_lines += lines
            kept.append((case, obs, plan))
        answers = ctx.model(all_lines)
        for (case, obs, plan), (a, k) in zip(kept, spans):
            compare_model(ctx, case, obs, plan, answers[a:a + k])
        # reuse of one object
        ns = ctx.scale(110, 1500)
        sessions = directed_sessions() + [gen_session(ctx.rng, big=(ctx.tier == 'thorough' and k % 4 == 0)) for k in range(ns)]
        s_lines, s_spans, s_kept = [], [], []
        for sess in sessions:
            obs = {}
            bad = oracle_session(sess, observe=obs)
            for key, what in bad:
                ctx.violation(key, what, {'session': sess})
            if 'log' not in obs:
                ctx.count('skipped:empty-focal-grid')
                continue
            kinds = [o['op'] + ('64' if o.get('dtype') == 'c64' else '') for o in sess['ops']]
            ctx.count('session:' + sess['style'])
            ctx.count('session-ops', len(kinds))
            for a, b in zip(kinds, kinds[1:]):
                ctx.count('session-transition:%s>%s' % (a, b))
            fg, pg = obs['focal_grid'], obs['pupil_grid']
            if fg.is_regular and fg.is_('cartesian') and any(int(a) > int(b) for a, b in zip(fg.dims, pg.dims)) and sess['case']['focal']['kind'] == 'conj' \
                    and any(sess['case']['focal']['crop']):
                ctx.count('session:cropped-fft-grid-larger-than-pupil')
            ctx.case(None, nontrivial_key=('session', sess['style'], tuple(kinds), tuple(sess['case']['pupil']['dims']), sess['case']['focal']['kind']))
            lines, plan = session_requests(sess, obs)
            s_spans.append((len(s_lines), len(lines)))
            s_lines += lines
            s_kept.append((sess, plan))
        s_answers = ctx.model(s_lines)
        for (sess, plan), (a, k) in zip(s_kept, s_spans):
            compare_session(ctx, sess, plan, s_answers[a:a + k])
    if ctx.evaluations and ctx.boundary_skipped > 0.05 * max(1, ctx.traces_validated):
        raise MachineryError('more than 5%% of the comparisons were boundary-skipped (%d)' % ctx.boundary_skipped)


def replay(ctx, case):
    with warnings.catch_warnings():
        warnings.simplefilter('ignore')
        bad = oracle_session(case['session']) if 'session' in case else oracle_case(case)
    for key, what in bad:
        print('  fails:', key, '-', what)
    return not bad
