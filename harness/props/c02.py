"""C02 — Fourier forward/backward are inverse, adjoint and energy-consistent.

Shares the generator and the real-code driver with C01 (harness/props/c01.py).  The property
oracle evaluates the four clauses directly on the outputs of the real transforms:

* adjointness   <y, F x>_{w_out/(2π)^n} = <B y, x>_{w_in}   for every implementation and grid pair,
* on full (uncropped) FFT grid pairs: backward(forward(f)) = f and Parseval, for every implementation,
* on cropped FFT grids: output energy ≤ input energy,
* FourierFilter.backward is the adjoint of FourierFilter.forward (scalar and matrix transfer functions).

Correspondence: the Lean model's pipeline on impulses (`C02 adj`: F_kj, B_jk and the exact adjointness
flag) against the real forward/backward, and the full-grid decision (`C02 full`).
"""
import numpy as np
from harness.common import rat, Fraction, MachineryError
from harness.props import c01

CLD = c01.CLD


def inner(a, b, w):
    """Σ conj(a)·b·w over all tensor components and points (longdouble accumulate)"""
    return complex(np.sum(np.conj(a.astype(CLD)) * b.astype(CLD) * w))


def energy(a, w):
    return float(np.sum((np.abs(a.astype(CLD)) ** 2) * w))


def gen_case(rng, big):
    case = c01.gen_case(rng, big)
    r = rng.random()
    if case['family'] == 'fft' and r < 0.5:
        case['fov'] = [1.0 for _ in case['fov']]           # full (uncropped) pair
    r = rng.random()
    if r < 0.25:
        case['field'] = {'kind': 'impulse', 'index': [[0, n - 1, n // 2, int(rng.integers(0, n))][int(rng.integers(0, 4))] for n in case['N']]}
    elif r < 0.45:
        case['field'] = {'kind': 'edge', 'seed': int(rng.integers(0, 2 ** 31))}
    return case


def klass(case, name, info, clause):
    c = c01.cls_of(name)
    if c in ('fft', 'auto') and case.get('in_kind') == 'regular-w' and info.get('is_fft'):
        return 'fft-per-point-weights'
    if (c in ('fft', 'auto') and info.get('inconsistent')) or (info.get('grid_inconsistent') and not clause.startswith('adjoint')):
        return 'fft-grid-inconsistent'
    if c == 'zoom' and (case['tensor'] or len(case['N']) >= 3):
        return 'zoom-tensor-or-3d'
    return '%s-%s' % (c, clause)


def oracle_case(case, thorough=False):
    import hcipy
    bad = []
    obs = {'impls': [], 'clauses': []}
    ndim = len(case['N'])
    tol = c01.tol_for(case['dtype'])
    two_pi_n = float((2 * np.pi) ** ndim)
    with c01.Conf(case.get('method')):
        in_grid = c01.make_in_grid(case)
        try:
            out_grid, transforms = c01.build_transforms(case, in_grid, thorough or case.get('all_switches', False))
        except Exception as e:  # noqa
            key = 'fft-per-point-weights' if case.get('in_kind') == 'regular-w' else 'construct-raises'
            return [(key, 'constructing the transform raised %s: %s' % (type(e).__name__, e))], obs
        x = c01.make_field(case, in_grid)
        T = int(np.prod(case['tensor'])) if case['tensor'] else 1
        xv = np.asarray(x).reshape(T, -1)
        w_in = in_grid.weights
        e_in = energy(xv, w_in)
        seen_matrix = set()
        for name, thunk in transforms:
            try:
                ft = thunk()
            except Exception as e:  # noqa
                bad.append((c01.cls_of(name) + '-construct-raises', '%s: constructing raised %s: %s' % (name, type(e).__name__, e)))
                continue
            og = ft.output_grid
            info = {}
            full = False
            is_fft_grid = case['family'] == 'fft' and case.get('in_kind', 'regular') == 'regular'
            if isinstance(ft, hcipy.FastFourierTransform):
                info['is_fft'] = True
                M = np.array(ft.internal_shape[::-1], dtype='float64')
                info['inconsistent'] = bool(np.any(np.abs(og.delta * M * in_grid.delta - 2 * np.pi) > 1e-9))
                if name == 'fft-std':
                    obs['fft'] = ft
            if is_fft_grid and obs.get('fft') is not None:
                f0 = obs['fft']
                full = bool(np.array_equal(f0.shape_out, f0.internal_shape))
                info.setdefault('inconsistent', False)
                M0 = np.array(f0.internal_shape[::-1], dtype='float64')
                # the grid this case calls "the FFT grid" is not an FFT grid of the array transformed (defect class D4)
                info['grid_inconsistent'] = bool(np.any(np.abs(f0.output_grid.delta * M0 * in_grid.delta - 2 * np.pi) > 1e-9))
            if name.startswith('auto') and not c01.grids_close(og, out_grid):
                continue        # reported by C01 (selection-output-grid)
            obs['impls'].append(name + ':' + type(ft).__name__)
            w_out = og.weights / two_pi_n
            mk = ('matrix', type(ft).__name__, id(og))
            if mk not in seen_matrix and in_grid.size * og.size <= 40000:
                seen_matrix.add(mk)
                try:
                    Af = np.asarray(ft.get_transformation_matrix_forward())
                    Ab = np.asarray(ft.get_transformation_matrix_backward())
                    xm = np.asarray(x).reshape(T, -1)
                    ym = np.asarray(c01.make_field(case, og, which='g')).reshape(T, -1)
                    Fx = (Af @ xm.T).T
                    By = (Ab @ ym.T).T
                    lhs = inner(ym, Fx, w_out)
                    rhs = inner(By, xm, w_in)
                    scale = max(float(np.sum(np.abs(ym) * np.abs(Fx) * w_out)), float(np.sum(np.abs(By) * np.abs(xm) * w_in)), 1e-300)
                    obs['clauses'].append('matrix-adjoint')
                    if not abs(lhs - rhs) <= tol * scale:
                        bad.append(('matrix-adjoint', '%s: the transformation matrices are not adjoint: <y,A_f x>_out = %r, <A_b y,x>_in = %r' % (
                            type(ft).__name__, lhs, rhs)))
                except Exception as e:  # noqa
                    bad.append(('matrix-raises', '%s.get_transformation_matrix_* raised %s: %s' % (type(ft).__name__, type(e).__name__, e)))
            rounds = [(case, x, None)] + [(dict(case, tensor=st['tensor'], dtype=st['dtype'], field=st['field'], gseed=st['gseed']), None, st)
                                           for st in case.get('seq', [])]
            for ri, (rc, xr, st) in enumerate(rounds):
                sfx = '' if ri == 0 else '-reused'
                note = '' if ri == 0 else ' (round %d on one object, %s, tensor %s)' % (ri + 1, rc['dtype'], rc['tensor'])
                tol_r = c01.tol_for(rc['dtype'])
                if xr is None:
                    xr = c01.make_field(rc, in_grid)
                Tr = int(np.prod(rc['tensor'])) if rc['tensor'] else 1
                xv = np.asarray(xr).reshape(Tr, -1)
                e_in = energy(xv, w_in)
                y = c01.make_field(rc, og, which='g')
                yv = np.asarray(y).reshape(Tr, -1)
                try:
                    if st is not None and st['dir'] == 'b':
                        By = np.asarray(ft.backward(y)).reshape(Tr, -1)
                        Fx = np.asarray(ft.forward(xr)).reshape(Tr, -1)
                    else:
                        Fx = np.asarray(ft.forward(xr)).reshape(Tr, -1)
                        By = np.asarray(ft.backward(y)).reshape(Tr, -1)
                except Exception as e:  # noqa
                    bad.append((klass(case, name, info, 'raises' + sfx), '%s raised %s: %s%s' % (name, type(e).__name__, e, note)))
                    break
                if Fx.shape != yv.shape or By.shape != xv.shape:
                    bad.append((klass(case, name, info, 'adjoint' + sfx), '%s returned arrays of the wrong size%s' % (name, note)))
                    break
                # adjointness (scale: the absolute sums of the two inner products; no absolute floor)
                lhs = inner(yv, Fx, w_out)
                rhs = inner(By, xv, w_in)
                scale = max(float(np.sum(np.abs(yv) * np.abs(Fx) * w_out)), float(np.sum(np.abs(By) * np.abs(xv) * w_in)), 1e-300)
                obs['clauses'].append('adjoint' + sfx)
                if not abs(lhs - rhs) <= tol_r * scale:
                    bad.append((klass(case, name, info, 'adjoint' + sfx),
                                '%s: <y,Fx>_out = %r but <By,x>_in = %r (scale %.3g)%s' % (name, lhs, rhs, scale, note)))
                if is_fft_grid:
                    e_out = energy(Fx, w_out)
                    if full:
                        obs['clauses'] += ['roundtrip' + sfx, 'parseval' + sfx]
                        try:
                            back = np.asarray(ft.backward(ft.forward(xr))).reshape(Tr, -1)
                        except Exception as e:  # noqa
                            bad.append((klass(case, name, info, 'raises' + sfx), '%s raised %s: %s%s' % (name, type(e).__name__, e, note)))
                            break
                        err = float(np.abs(back.astype(CLD) - xv).max())
                        if not err <= tol_r * max(float(np.abs(xv).max()), 1e-300):
                            bad.append((klass(case, name, info, 'roundtrip' + sfx), '%s: backward(forward(f)) differs from f by %.3g on a full FFT grid pair%s' % (name, err, note)))
                        if not abs(e_out - e_in) <= tol_r * max(e_in, 1e-300):
                            bad.append((klass(case, name, info, 'parseval' + sfx), '%s: output energy %r, input energy %r on a full FFT grid pair%s' % (name, e_out, e_in, note)))
                    else:
                        obs['clauses'].append('cropped-energy' + sfx)
                        if not e_out <= e_in + tol_r * max(e_in, 1e-300):
                            bad.append((klass(case, name, info, 'cropped-energy' + sfx), '%s: output energy %r exceeds input energy %r on a cropped FFT grid%s' % (name, e_out, e_in, note)))
        # Fourier filter adjointness
        if case.get('in_kind', 'regular') == 'regular' and case['family'] == 'fft' and int(np.prod(case['N'])) <= 20000:
            bad += filter_oracle(case, in_grid, x, obs)
    return bad, obs


def _filter_apply(kind, D, F, adjoint, gnd):
    """the point-wise product of FourierFilter in the Fourier domain, written independently: D has the tensor axes of the
    transfer function first, F those of the field; `gnd` grid axes follow."""
    if kind == 'scalar':
        return F * (np.conj(D) if adjoint else D)
    if kind == 'vector':
        # numpy broadcasting of f * tf: the vector index of the transfer function is the LAST tensor axis of the field
        return F * (np.conj(D) if adjoint else D)
    DD = np.conj(np.swapaxes(D, 0, 1)) if adjoint else D
    if F.ndim - gnd == 1:
        return np.einsum('ab...,b...->a...', DD, F)
    return np.einsum('ab...,bc...->ac...', DD, F)       # a matrix-valued field: the matrix acts from the left, column by column


def _filter_reference(kind, D, X, adjoint, Ns, Ms):
    """crop(ifftn(D (.) fftn(pad X))) with the cut-out start M//2 - N//2 per axis (numpy axis order)"""
    gnd = len(Ns)
    ts = X.shape[:X.ndim - gnd]
    sl = tuple(slice(None) for _ in ts) + tuple(slice(M // 2 - N // 2, M // 2 - N // 2 + N) for N, M in zip(Ns, Ms))
    P = np.zeros(ts + tuple(Ms), dtype='complex128')
    P[sl] = X
    axes = tuple(range(-gnd, 0))
    G = _filter_apply(kind, D, np.fft.fftn(P, axes=axes), adjoint, gnd)
    R = np.fft.ifftn(G, axes=axes)
    sl2 = tuple(slice(None) for _ in R.shape[:R.ndim - gnd]) + sl[len(ts):]
    return R[sl2]


def filter_oracle(case, in_grid, x, obs):
    """FourierFilter: every combination (tensor order of the transfer function) x (tensor order of the field), forward and
    backward, several field shapes through ONE filter object: adjointness in the unweighted inner product over all tensor
    components and samples, and both directions against an independent numpy reference."""
    import hcipy
    bad = []
    rng = np.random.default_rng(case['gseed'] + 17)
    q = np.array(case['q'])
    dt = case['dtype']
    tol = c01.tol_for(dt)
    try:
        probe = hcipy.FastFourierTransform(in_grid, q)
    except Exception:  # noqa
        return bad
    ig = probe.output_grid
    Ns = tuple(int(n) for n in in_grid.shape)
    Ms = tuple(int(m) for m in probe.internal_shape)
    gnd = len(Ns)
    ts0 = [int(t) for t in case['tensor']]
    small = int(np.prod(Ms)) <= 6000

    def rnd(shape):
        return (rng.normal(size=shape) + 1j * rng.normal(size=shape)).astype(dt)

    # (kind of transfer function, its tensor shape, tensor shapes of the fields sent through the one object)
    plans = []
    extra = [[int(rng.integers(1, 4))], [int(rng.integers(1, 4)), int(rng.integers(1, 4))]]
    sc_shapes = [ts0] + ([extra[int(rng.integers(0, 2))]] if small and rng.random() < 0.5 else [])
    plans.append(('scalar', (), sc_shapes))
    # a matrix transfer function is defined for vector and matrix fields (field_dot); a field of tensor order 0 or >= 3 is not sent through it
    ts_m = ts0 if len(ts0) in (1, 2) else []
    if ts_m or small:
        k0 = ts_m[0] if ts_m else int(rng.integers(1, 4))          # contracted index: the first tensor axis of the field
        m = k0 if rng.random() < 0.6 else int(rng.integers(1, 4))
        shapes = [ts_m] if ts_m else []
        if small:
            more = [[k0], [k0, int(rng.integers(1, 4))]]
            shapes += [sh for sh in more if sh != ts_m][:2 if rng.random() < 0.5 else 1] if ts_m else more[int(rng.integers(0, 2)):][:2]
        if not any(len(sh) == 2 for sh in shapes) and small:
            shapes.append([k0, int(rng.integers(1, 4))])
        plans.append(('matrix', (m, k0), shapes))
    if (ts0 or small) and rng.random() < 0.5:
        kv = ts0[-1] if ts0 else int(rng.integers(1, 4))          # broadcast index: the last tensor axis of the field
        shapes = ([ts0] if ts0 else []) + ([[kv], [int(rng.integers(1, 4)), kv]] if small else [])
        plans.append(('vector', (kv,), shapes[:3]))
    for kind, tfs, shapes in plans:
        tf_arr = rnd(tuple(tfs) + (ig.size,))
        D = np.fft.ifftshift(tf_arr.astype('complex128').reshape(tuple(tfs) + Ms), axes=tuple(range(-gnd, 0)))
        try:
            ff = hcipy.FourierFilter(in_grid, hcipy.Field(tf_arr.copy(), ig), q)
        except Exception as e:  # noqa
            bad.append(('filter-raises', 'FourierFilter (%s transfer function %s) raised %s: %s' % (kind, tfs, type(e).__name__, e)))
            continue
        for si, ts in enumerate(shapes):
            ts = list(ts)
            what = '%s transfer function %s, field tensor shape %s%s' % (kind, list(tfs), ts, '' if si == 0 else ' (call %d on one object, after shapes %s)' % (
                si + 1, shapes[:si]))
            out_ts = ([tfs[0]] + ts[1:]) if kind == 'matrix' else ts
            if si == 0 and ts == ts0:
                xa = np.asarray(x)
            else:
                xa = rnd(tuple(ts) + (in_grid.size,))
            ya = rnd(tuple(out_ts) + (in_grid.size,))
            try:
                if rng.random() < 0.5:
                    Ax = np.asarray(ff.forward(hcipy.Field(xa.copy(), in_grid)))
                    Ay = np.asarray(ff.backward(hcipy.Field(ya.copy(), in_grid)))
                else:
                    Ay = np.asarray(ff.backward(hcipy.Field(ya.copy(), in_grid)))
                    Ax = np.asarray(ff.forward(hcipy.Field(xa.copy(), in_grid)))
            except Exception as e:  # noqa
                bad.append(('filter-raises', 'FourierFilter (%s) raised %s: %s' % (what, type(e).__name__, e)))
                break
            obs['clauses'].append('filter-adjoint-%s-tf-x-rank%d-field' % (kind, len(ts)))
            if si > 0:
                obs['clauses'].append('filter-shape-change-on-one-object')
            if Ax.shape != ya.shape or Ay.shape != xa.shape:
                bad.append(('filter-adjoint', 'FourierFilter (%s) returned arrays of shape %s / %s for inputs of shape %s / %s' % (what, Ax.shape, Ay.shape, xa.shape, ya.shape)))
                break
            lhs = inner(ya, Ax, 1.0)
            rhs = inner(Ay, xa, 1.0)
            scale = max(float(np.sum(np.abs(ya) * np.abs(Ax))), float(np.sum(np.abs(Ay) * np.abs(xa))), 1e-300)
            if not abs(lhs - rhs) <= tol * scale:
                bad.append(('filter-adjoint', 'FourierFilter (%s): <y,Ax> = %r but <A†y,x> = %r' % (what, lhs, rhs)))
            for dname, got, src, adj in (('forward', Ax, xa, False), ('backward', Ay, ya, True)):
                try:
                    ref = _filter_reference(kind, D, src.astype('complex128').reshape(src.shape[:-1] + Ns), adj, Ns, Ms).reshape(got.shape)
                except Exception as e:  # noqa
                    raise MachineryError('filter reference (%s, %s): %s: %s' % (what, dname, type(e).__name__, e))
                err = float(np.abs(got.astype(CLD) - ref).max())
                if not err <= tol * max(float(np.abs(ref).max()), 1e-300):
                    bad.append(('filter-' + dname, 'FourierFilter.%s (%s) differs from crop(ifftn(%s fftn(pad x))) by %.3g (scale %.3g)' % (
                        dname, what, 'D·' if not adj else ('conj(D)·' if kind != 'matrix' else 'Dᴴ·'), err, float(np.abs(ref).max()))))
    return bad


# ---------------------------------------------------------------------------------------------
# correspondence

def adj_requests(case, ft):
    """model adjointness on impulses vs the real code, per axis product (both settings)"""
    import hcipy
    reqs = []
    ndim = len(case['N'])
    Ms = [int(m) for m in ft.internal_shape[::-1]]
    Mos = [int(m) for m in ft.shape_out[::-1]]
    Ns = [int(n) for n in ft.shape_in[::-1]]
    dTs = c01.reported_dT(ft, case['delta'])
    if dTs is None:
        return reqs
    r = np.random.default_rng(case['gseed'] + 5)
    j = [int(r.integers(0, n)) for n in Ns]
    k = [int(r.integers(0, n)) for n in Mos]
    in_grid = ft.input_grid
    q, fov, shift = np.array(case['q']), np.array(case['fov']), np.array(case['shift'])
    for cfg in ('std', 'emu'):
        try:
            f = ft if cfg == 'std' else hcipy.FastFourierTransform(in_grid, q, fov, shift, emulate_fftshifts=True)
            a = np.zeros(in_grid.size, dtype='complex128')
            a[sum(j[d] * int(np.prod(Ns[:d])) for d in range(ndim))] = 1
            kflat = sum(k[d] * int(np.prod(Mos[:d])) for d in range(ndim))
            Fkj = complex(np.asarray(f.forward(hcipy.Field(a, in_grid)))[kflat])
            b = np.zeros(f.output_grid.size, dtype='complex128')
            b[kflat] = 1
            jflat = sum(j[d] * int(np.prod(Ns[:d])) for d in range(ndim))
            Bjk = complex(np.asarray(f.backward(hcipy.Field(b, f.output_grid)))[jflat])
        except Exception:  # noqa
            continue
        lines = []
        for d in range(ndim):
            w = Fraction(1)
            if d == 0:
                for dd in range(ndim):
                    w *= Fraction(case['delta'][dd])
            # per-axis output weight in turns: the product over axes of dT is Δ-weight/(2π)^n
            lines.append('C02 adj %s %d %d %d %s %s %s %s %s %d %d' % (cfg, Ns[d], Ms[d], Mos[d], rat(case['delta'][d]), rat(case['zero'][d]),
                                                               rat(dTs[d]), rat(case['shift'][d]), rat(case['delta'][d]), j[d], k[d]))
        reqs.append((lines, Fkj, Bjk, cfg, j, k))
    return reqs


def compare_adj(resps, Fkj, Bjk):
    F = CLD(1)
    B = CLD(1)
    for r in resps:
        p = r.split()
        if p[0] != 'ok':
            return 'model: ' + r
        if p[1] != '1':
            return 'model: the modelled pipeline is not adjoint on this impulse pair: ' + r
        F = F * c01.eval_mono(p[2])
        B = B * c01.eval_mono(p[3])
    if not abs(complex(F) - Fkj) <= 1e-9 * max(abs(complex(F)), 1e-300):
        return 'forward impulse response: implementation %r, model %r' % (Fkj, complex(F))
    if not abs(complex(B) - Bjk) <= 1e-9 * max(abs(complex(B)), 1e-300):
        return 'backward impulse response: implementation %r, model %r' % (Bjk, complex(B))
    return None


def check_full(r, Md, Mod):
    p = r.split()
    if p[0] != 'ok':
        return 'model: ' + r
    if any(0 < Fraction(x) < Fraction(1, 10 ** 9) for x in p[3:5]):
        return 'boundary'
    if p[1] == ('1' if Mod == Md else '0') and int(p[2]) == Md:
        return None
    return 'full-grid decision: implementation M=%d Mo=%d, model %s' % (Md, Mod, r)


def run(ctx):
    ctx.rule = ('the C01 generator (grid pairs, fields, configurations; see evidence/C01.json) with half of the FFT-family cases forced to a full '
                '(fov = 1) pair and more single-pixel / edge-concentrated fields. For every applicable implementation: adjointness of '
                'forward/backward in the weighted inner products of the two grids; on full FFT pairs the round trip and Parseval; on cropped '
                'FFT grids output energy ≤ input energy; FourierFilter: every combination of transfer-function tensor order (scalar, vector, m×k matrix) and field '
                'tensor order (scalar, vector, matrix), several field shapes through one object, forward/backward adjointness and both directions against a numpy reference. '
                'Correspondence: modelled pipeline on impulse pairs (F_kj, B_jk, exact adjointness flag) and the full-grid decision. '
                'Non-trivial = more than one input sample; distinct by the C01 signature plus the clauses evaluated.')
    ctx.assumptions += ['numpy/scipy fftn/ifftn compute the DFT / inverse DFT with 1/M normalisation', 'BLAS gemm computes matrix products',
                        'the weights reported by the grids are the weights the property refers to']
    thorough = ctx.tier == 'thorough'
    n = ctx.scale(320, 4200)
    cases = [dict(c) for c in c01.DIRECTED]
    for c in c01.DIRECTED[:4]:
        c2 = dict(c)
        c2['fov'] = [1.0 for _ in c['fov']]
        cases.append(c2)
    for i in range(n):
        cases.append(gen_case(ctx.rng, big=thorough and i % 4 == 0))
    for i in range(ctx.scale(60, 500)):
        cases.append(c01.gen_seq_case(ctx.rng, big=thorough))
    cases += [dict(c) for c in c01.DIRECTED_SEQ]
    lines = []
    checks = []
    for ci, case in enumerate(cases):
        bad, obs = oracle_case(case, thorough and ci % 5 == 0)
        for key, what in bad:
            ctx.violation(key, what, case)
        c01.count_case(ctx, case, obs)
        for cl in obs.get('clauses', []):
            ctx.count('clause:' + cl)
        size = int(np.prod(case['N']))
        sig = c01.case_signature(case, obs) + (tuple(sorted(set(obs.get('clauses', [])))),)
        ctx.case({k: case[k] for k in ('family', 'N', 'q', 'fov', 'shift', 'tensor', 'dtype')}, sig if size > 1 else None)
        ft = obs.get('fft')
        if ft is not None and case['family'] == 'fft':
            full_impl = bool(np.array_equal(ft.shape_out, ft.internal_shape))
            for d in range(len(case['N'])):
                Md = int(ft.internal_shape[::-1][d])
                Mod = int(ft.shape_out[::-1][d])
                checks.append((len(lines), 0, (lambda r, Md=Md, Mod=Mod: check_full(r, Md, Mod)), case, 'full'))
                lines.append('C02 full %d %s %s' % (case['N'][d], rat(case['q'][d]), rat(case['fov'][d])))
            if int(np.prod(ft.internal_shape)) <= (400000 if thorough else 60000) and case.get('in_kind') != 'regular-w':
                for ls, Fkj, Bjk, cfg, j, k in adj_requests(case, ft):
                    checks.append((len(lines), len(ls), (lambda rs, Fkj=Fkj, Bjk=Bjk: compare_adj(rs, Fkj, Bjk)), case, 'adj %s %s %s' % (cfg, j, k)))
                    lines += ls
    out = ctx.model(lines)
    for start, cnt, chk, case, stream in checks:
        detail = chk(out[start]) if cnt == 0 else chk(out[start:start + cnt])
        ctx.traces_validated += 1
        if detail == 'boundary':
            ctx.boundary_skipped += 1
        elif detail is not None:
            ctx.disagree('C02 ' + stream, {'case': case, 'detail': detail})
    from harness.props import c02_ties
    c02_ties.run_ties(ctx, {'tie-filterm': ctx.scale(40, 400), 'tie-multi': ctx.scale(200, 1600)})


def replay(ctx, case):
    if str(case.get('family', '')).startswith('tie-'):
        from harness.props import c02_ties
        return c02_ties.replay_case(ctx, case)
    bad, obs = oracle_case(case, thorough=True)
    for key, what in bad:
        print('  fails:', key, '-', what)
    return not bad
