"""C13 — Zernike modes: index maps (exhaustive range, tie T3) and mode values (tie T1) against the
Lean model, plus direct oracles of the property on the real code (enumeration of the documented
orderings, factorial definition in extended precision, cache/no-cache comparison, quadrature
orthonormality)."""
import math
import time
import warnings

import numpy as np

from harness.common import rat, rat_list, parse_rat_list, Fraction, MachineryError

NMAX = 20
LD = np.longdouble
TOL = 1e-9

# squared normalisation constants (n+1)·(2 if m≠0), asked from the model (`C13 normsq`) once per run
NORMSQ = {}


def load_normsq(ctx):
    """The rational model values are multiplied by sqrt(normSq n m) to give the value the code returns; normSq is
    the model's own definition (the one `normalisation_unit` / `zernikeR_eq_model` are about), not a Python copy."""
    pairs = [(n, m) for n in range(NMAX + 1) for m in range(-n, n + 1, 2)]
    out = ctx.model(['C13 normsq %d %d' % nm for nm in pairs])
    for nm, line in zip(pairs, out):
        if not line.startswith('ok '):
            raise MachineryError('model answered %r to normsq %r' % (line[:60], nm))
        NORMSQ[nm] = Fraction(line[3:])
        ctx.traces_validated += 1
    ctx.count('normsq-from-model', len(pairs))


def norm_factor(n, m):
    q = NORMSQ[(n, m)]
    return np.sqrt(LD(q.numerator) / LD(q.denominator))


# =============================================================================================
# Part A: index maps

def expected_noll(nmax):
    """The documented Noll sequence, by enumeration (Noll 1976): modes ordered by n, then |m|;
    the two modes ±m of one |m| take consecutive indices, the even index is the cosine (m > 0).
    Returns arrays n[i-1], m[i-1] for i = 1 … (nmax+1)(nmax+2)/2, built row by row."""
    ns, ms = [], []
    i = 1
    for n in range(nmax + 1):
        absm = []
        for a in range(n % 2, n + 1, 2):
            absm += [a] if a == 0 else [a, a]
        absm = np.array(absm, dtype=np.int64)
        idx = np.arange(i, i + n + 1, dtype=np.int64)
        sign = np.where(idx % 2 == 0, 1, -1)
        ns.append(np.full(n + 1, n, dtype=np.int64))
        ms.append(absm * sign)
        i += n + 1
    return np.concatenate(ns), np.concatenate(ms)


def expected_ansi(nmax):
    """ANSI/OSA sequence: n ascending, m = -n, -n+2, …, n ascending, indices from 0."""
    ns = [np.full(n + 1, n, dtype=np.int64) for n in range(nmax + 1)]
    ms = [np.arange(-n, n + 1, 2, dtype=np.int64) for n in range(nmax + 1)]
    return np.concatenate(ns), np.concatenate(ms)


def doc_noll(i):
    """the documented Noll mode of index i >= 1 in closed form, exact integer arithmetic (for indices too large to enumerate)"""
    n = (math.isqrt(8 * (i - 1) + 1) - 1) // 2          # tri(n) < i <= tri(n+1)
    j = i - n * (n + 1) // 2 - 1
    a = 2 * ((j + 1) // 2) if n % 2 == 0 else 2 * (j // 2) + 1
    return n, (a if i % 2 == 0 else -a)


def doc_ansi(i):
    n = (math.isqrt(8 * i + 1) - 1) // 2
    return n, 2 * (i - n * (n + 1) // 2) - n


def parse_pairs(line):
    if not line.startswith('ok '):
        raise MachineryError('model answered %r to an index-map request' % line[:80])
    flat = line[3:].replace(':', ',').split(',')
    a = np.array(flat, dtype=np.int64)
    return a[0::2], a[1::2]


def call_index(f, *args):
    try:
        return f(*args)
    except Exception as e:      # noqa
        return 'raises-' + type(e).__name__


def check_index_maps(ctx, hz):
    N = ctx.scale(200000, 2000000)
    nmax = int(math.isqrt(2 * N)) + 2
    en, em = expected_noll(nmax)
    an, am = expected_ansi(nmax)
    ctx.extra['index_range'] = {'noll_to_zernike': [1, N], 'ansi_to_zernike': [0, N], 'zernike_to_ansi': 'all valid pairs with index <= %d' % N}

    # ---- real code, forward maps, exhaustive
    t0 = time.time()
    rn = np.empty(N, dtype=np.int64); rm = np.empty(N, dtype=np.int64)
    f = hz.noll_to_zernike
    for i in range(1, N + 1):
        rn[i - 1], rm[i - 1] = f(i)
    qn = np.empty(N + 1, dtype=np.int64); qm = np.empty(N + 1, dtype=np.int64)
    f = hz.ansi_to_zernike
    for i in range(N + 1):
        qn[i], qm[i] = f(i)
    f = hz.zernike_to_ansi
    back = np.empty(N + 1, dtype=np.int64)
    for i in range(N + 1):
        back[i] = f(int(an[i]), int(am[i]))
    ctx.extra['index_time_real_s'] = round(time.time() - t0, 2)

    # ---- property oracle on the real code (enumeration; independent of the model)
    def first_bad(mask):
        w = np.nonzero(mask)[0]
        return None if len(w) == 0 else int(w[0])

    b = first_bad((rn != en[:N]) | (rm != em[:N]))
    if b is not None:
        ctx.violation('noll-order', 'noll_to_zernike(%d) = (%d,%d), the documented Noll ordering gives (%d,%d)'
                      % (b + 1, rn[b], rm[b], en[b], em[b]), {'what': 'noll', 'i': b + 1})
    b = first_bad((np.abs(rm) > rn) | ((rn - np.abs(rm)) % 2 != 0))
    if b is not None:
        ctx.violation('noll-valid', 'noll_to_zernike(%d) = (%d,%d) is not a valid pair' % (b + 1, rn[b], rm[b]), {'what': 'noll', 'i': b + 1})
    b = first_bad((qn != an[:N + 1]) | (qm != am[:N + 1]))
    if b is not None:
        ctx.violation('ansi-order', 'ansi_to_zernike(%d) = (%d,%d), the ANSI ordering gives (%d,%d)'
                      % (b, qn[b], qm[b], an[b], am[b]), {'what': 'ansi', 'i': b})
    b = first_bad(back != np.arange(N + 1))
    if b is not None:
        ctx.violation('ansi-inverse', 'zernike_to_ansi(%d,%d) = %d, expected %d' % (an[b], am[b], back[b], b), {'what': 'toansi', 'n': int(an[b]), 'm': int(am[b])})
    # injectivity of the forward maps (=> bijection onto the enumerated pairs on this range)
    key = rn * (4 * nmax + 8) + (rm + 2 * nmax + 4)
    if len(np.unique(key)) != N:
        ctx.violation('noll-injective', 'noll_to_zernike is not injective on 1..%d' % N, {'what': 'noll-injective', 'N': N})
    ctx.case({'index-maps': 'noll 1..%d, ansi 0..%d' % (N, N)}, ('index-forward', N))
    ctx.count('index:noll_to_zernike', N); ctx.count('index:ansi_to_zernike', N + 1); ctx.count('index:zernike_to_ansi', N + 1)

    # ---- far indices, up to the bound of `noll_order_float_safe` / `ansi_order_float_safe` (2i-1 < 2^48): windows around the first
    # index of a row, where the float square root is closest to the decision threshold, and random indices inside rows
    far_lines, far_slots = [], []
    rows_far = [int(x) for x in ctx.rng.integers(1000, 16000000, size=ctx.scale(40, 400))] + [16000000, 11863283, 4194304, 2 ** 23 - 1]
    for n in rows_far:
        T = n * (n + 1) // 2
        for lo, hi, doc, fn, name, key in ((T - 2, T + 5, doc_noll, hz.noll_to_zernike, 'noll', 'noll-order'),
                                           (T - 3, T + 4, doc_ansi, hz.ansi_to_zernike, 'ansi', 'ansi-order')):
            starts = [lo] + [int(T + 1 + ctx.rng.integers(0, n)) for _ in range(2)]
            for st in starts:
                w = (st, st + (hi - lo if st == lo else 2))
                got = []
                for i in range(*w):
                    g = call_index(fn, i)
                    got.append(g)
                    if g != doc(i):
                        ctx.violation(key, '%s_to_zernike(%d) = %r, the documented ordering gives %r' % (name, i, g, doc(i)), {'what': name, 'i': i})
                far_slots.append((len(far_lines), name, w[0], got))
                far_lines.append('C13 %s %d %d' % (name, w[0], w[1]))
                ctx.count('index:far-%s' % name, w[1] - w[0])
    out = ctx.model(far_lines)
    for idx, name, lo, got in far_slots:
        a, b = parse_pairs(out[idx])
        for k, g in enumerate(got):
            ctx.traces_validated += 1
            if g != (int(a[k]), int(b[k])):
                ctx.disagree('C13 %s far' % name, {'i': lo + k, 'impl': repr(g), 'model': [int(a[k]), int(b[k])]})
    ctx.case({'far-index-windows': '%d rows up to n = 1.6e7 (index 1.3e14)' % len(rows_far)}, ('index-far', len(rows_far)))

    # ---- zernike_to_noll (brute-force search in the code): all pairs with n <= n_small, random pairs above
    n_small = ctx.scale(100, 300)
    n_big = int(ctx.scale(600, 1900))
    pairs = [(n, m) for n in range(n_small + 1) for m in range(-n, n + 1, 2)]
    rows_big = sorted(set(int(x) for x in ctx.rng.integers(n_small + 1, n_big + 1, size=ctx.scale(12, 40))))
    sample_big = []
    for n in rows_big:
        for m in set([-n, n, n - 2, -n + 2, (n % 2), -(n % 2)] + [int(2 * ctx.rng.integers(0, n // 2 + 1) - n) for _ in range(4)]):
            if abs(m) <= n:
                sample_big.append((n, m))
    first = lambda n: n * (n + 1) // 2          # noqa: E731  index (0-based) of the first mode of order n in `en`
    lookup = {}
    for n in list(range(n_small + 1)) + rows_big:
        for j in range(first(n), first(n) + n + 1):
            lookup[(n, int(em[j]))] = j + 1
    real_tonoll = {}
    for (n, m) in pairs + sample_big:
        got = call_index(hz.zernike_to_noll, n, m)
        real_tonoll[(n, m)] = got
        if got != lookup[(n, m)]:
            ctx.violation('noll-inverse', 'zernike_to_noll(%d,%d) = %r, expected %d' % (n, m, got, lookup[(n, m)]), {'what': 'tonoll', 'n': n, 'm': m})
    ctx.count('index:zernike_to_noll', len(pairs) + len(sample_big))

    # ---- pairs that are no Zernike indices (|m| > n or n - |m| odd): the search must fail with the documented ValueError
    # (theorem `zernikeToNoll_none_iff`: the model's search returns none exactly for these)
    invalid = [(n, m) for n in range(0, 13) for m in range(-n - 3, n + 4) if abs(m) > n or (n - abs(m)) % 2]
    for n in [int(x) for x in ctx.rng.integers(13, 80, size=ctx.scale(12, 60))]:
        invalid += [(n, n + 1), (n, -n - 2), (n, (n + 1) % 2), (n, -(n - 1)), (n, int(ctx.rng.integers(-n - 5, n + 6)) // 2 * 2 + (n + 1) % 2)]
    real_invalid = {}
    for (n, m) in invalid:
        try:
            got = hz.zernike_to_noll(n, m)
            real_invalid[(n, m)] = repr(got)
            ctx.violation('noll-invalid-pair', 'zernike_to_noll(%d,%d) = %r although (%d,%d) is not a valid pair of Zernike indices' % (n, m, got, n, m),
                          {'what': 'tonoll-invalid', 'n': n, 'm': m})
        except ValueError as e:
            real_invalid[(n, m)] = 'raises'
            ctx.count('index:zernike_to_noll-invalid:ValueError')
        except Exception as e:      # noqa
            real_invalid[(n, m)] = 'raises'
            ctx.count('index:zernike_to_noll-invalid:' + type(e).__name__)
            ctx.violation('noll-invalid-error-type', 'zernike_to_noll(%d,%d) raises %s: %s  instead of the ValueError "Could not find noll index" of the code' % (
                n, m, type(e).__name__, e), {'what': 'tonoll-invalid', 'n': n, 'm': m})
    out = ctx.model(['C13 tonoll1 %d %d' % nm for nm in invalid])
    for nm, line in zip(invalid, out):
        ctx.traces_validated += 1
        mdl = 'raises' if line == 'err value' else line
        if mdl != 'raises' or real_invalid[nm] != 'raises':
            ctx.disagree('C13 tonoll1', {'n': nm[0], 'm': nm[1], 'impl': real_invalid[nm], 'model': line})
    ctx.count('index:zernike_to_noll-invalid', len(invalid))
    ctx.case({'zernike_to_noll': 'all pairs n<=%d, %d sampled pairs up to n=%d' % (n_small, len(sample_big), n_big)}, ('index-tonoll', n_small))

    # ---- correspondence with the model (T3: exhaustive on the same range)
    CH = 50000
    lines = []
    for lo in range(1, N + 1, CH):
        lines.append('C13 noll %d %d' % (lo, min(N + 1, lo + CH)))
    n_noll = len(lines)
    for lo in range(0, N + 1, CH):
        lines.append('C13 ansi %d %d' % (lo, min(N + 1, lo + CH)))
    n_ansi = len(lines) - n_noll
    rows = list(range(n_small + 1)) + rows_big
    for n in rows:
        lines.append('C13 tonoll %d' % n)
    arows = sorted(set(list(range(0, 60)) + [int(x) for x in ctx.rng.integers(60, nmax - 2, size=40)]))
    for n in arows:
        lines.append('C13 toansi %d' % n)
    out = ctx.model(lines)
    mn = np.concatenate([parse_pairs(l)[0] for l in out[:n_noll]]); mm = np.concatenate([parse_pairs(l)[1] for l in out[:n_noll]])
    ctx.traces_validated += N
    b = first_bad((mn != rn) | (mm != rm))
    if b is not None:
        ctx.disagree('C13 noll', {'i': b + 1, 'impl': [int(rn[b]), int(rm[b])], 'model': [int(mn[b]), int(mm[b])]})
    o2 = out[n_noll:n_noll + n_ansi]
    mn = np.concatenate([parse_pairs(l)[0] for l in o2]); mm = np.concatenate([parse_pairs(l)[1] for l in o2])
    ctx.traces_validated += N + 1
    b = first_bad((mn != qn) | (mm != qm))
    if b is not None:
        ctx.disagree('C13 ansi', {'i': b, 'impl': [int(qn[b]), int(qm[b])], 'model': [int(mn[b]), int(mm[b])]})
    k = n_noll + n_ansi
    for n in rows:
        vals = out[k][3:].split(','); k += 1
        for m, v in zip(range(-n, n + 1, 2), vals):
            if (n, m) in real_tonoll:
                ctx.traces_validated += 1
                if str(real_tonoll[(n, m)]) != v:
                    ctx.disagree('C13 tonoll', {'n': n, 'm': m, 'impl': real_tonoll[(n, m)], 'model': v})
    for n in arows:
        vals = out[k][3:].split(','); k += 1
        for m, v in zip(range(-n, n + 1, 2), vals):
            ctx.traces_validated += 1
            got = call_index(hz.zernike_to_ansi, n, m)
            if str(got) != v:
                ctx.disagree('C13 toansi', {'n': n, 'm': m, 'impl': got, 'model': v})


# =============================================================================================
# Part B: mode values

TRIPLES = [(3, 4, 5), (5, 12, 13), (8, 15, 17), (7, 24, 25), (20, 21, 29), (12, 35, 37), (9, 40, 41), (28, 45, 53), (11, 60, 61)]


def gen_angle(rng):
    """A Pythagorean direction as integers (cn, sn, den): cos = cn/den, sin = sn/den."""
    u = rng.random()
    if u < 0.2:
        return [(1, 0, 1), (0, 1, 1), (-1, 0, 1), (0, -1, 1)][int(rng.integers(0, 4))]
    if u < 0.6:
        a, b, c = TRIPLES[int(rng.integers(0, len(TRIPLES)))]
    else:
        p = int(rng.integers(1, 12)); q = int(rng.integers(p + 1, 14))
        a, b, c = q * q - p * p, 2 * p * q, q * q + p * p
        g = math.gcd(math.gcd(a, b), c); a, b, c = a // g, b // g, c // g
    if rng.random() < 0.5:
        a, b = b, a
    if rng.random() < 0.5:
        a = -a
    if rng.random() < 0.5:
        b = -b
    return (a, b, c)


def gen_D(rng):
    return float(rng.integers(2, 41)) / [4.0, 8.0, 16.0][int(rng.integers(0, 3))]


def gen_radii(rng, D, k):
    """dyadic radii in [0, ~0.7 D], always containing 0 and D/2 and radii just around D/2"""
    rs = {0.0, D / 2}
    step = 2.0 ** -10
    rs.add(D / 2 - step); rs.add(D / 2 + step)
    if rng.random() < 0.5:
        rs.add(2.0 ** -int(rng.integers(8, 21)))         # very small radius
    while len(rs) < k:
        rs.add(float(rng.integers(0, int(0.7 * D * 256) + 1)) / 256.0)
    return sorted(rs)


def gen_reqs(rng, nreq, with_cache):
    """requests (n, m, cutoff), biased towards deep recursions (n - |m| >= 4); with a cache the same
    (n, |m|) is asked again with the other sign / the other cut-off setting"""
    reqs = []
    while len(reqs) < nreq:
        u = rng.random()
        if u < 0.35:
            n = int(rng.integers(4, NMAX + 1)); m = n % 2 + 2 * int(rng.integers(0, max(1, (n - 4) // 2 + 1)))
        elif u < 0.5:
            n = int(rng.integers(14, NMAX + 1)); m = n % 2
        else:
            n = int(rng.integers(0, NMAX + 1)); m = n % 2 + 2 * int(rng.integers(0, n // 2 + 1))
        m = min(m, n)
        if rng.random() < 0.5:
            m = -m
        cut = bool(rng.random() < 0.6)
        reqs.append([n, m, cut])
        if with_cache and rng.random() < 0.5:
            reqs.append([n, -m if rng.random() < 0.5 else m, (not cut) if rng.random() < 0.7 else cut])
    order = rng.permutation(len(reqs))
    return [reqs[i] for i in order]


def gen_case(rng, big):
    kind = ['cart-regular', 'cart-points', 'polar-points', 'polar-separated'][int(rng.integers(0, 4))]
    cache = bool(rng.random() < 0.6)
    case = {'kind': kind, 'cache': cache}
    if kind == 'cart-regular':
        dims = [int(rng.integers(2, 8 if not big else 12)), int(rng.integers(2, 8 if not big else 12))]
        if rng.random() < 0.5:
            dims[1] = dims[0]
        delta = float(rng.integers(1, 9)) / [8.0, 16.0, 32.0][int(rng.integers(0, 3))]
        # make_pupil_grid(dims, dims*delta): odd sizes have a pixel at the exact centre
        case['dims'] = dims; case['delta'] = delta
        ext = max(dims) * delta
        choices = [ext, ext / 2, ext * 0.75, 2 * delta * max(1, (max(dims) // 2)), 2 * delta]
        case['D'] = float(choices[int(rng.integers(0, len(choices)))])
    elif kind == 'cart-points':
        # points (a k, b k)/2^j with integer hypotenuse c k / 2^j: the radius is exact in binary
        npts = int(rng.integers(3, 9 if not big else 16))
        j = int(rng.integers(4, 9))
        pts = [(0.0, 0.0)]
        radii = [0.0]
        for _ in range(npts):
            a, b, c = gen_angle(rng)
            k = int(rng.integers(1, 6))
            pts.append((a * k / 2.0 ** j, b * k / 2.0 ** j)); radii.append(c * k / 2.0 ** j)
        case['x'] = [p[0] for p in pts]; case['y'] = [p[1] for p in pts]
        case['D'] = 2 * radii[int(rng.integers(1, len(radii)))] if rng.random() < 0.7 else 2 * max(radii) + 0.25
    elif kind == 'polar-points':
        D = gen_D(rng)
        rs = gen_radii(rng, D, int(rng.integers(5, 10 if not big else 20)))
        case['D'] = D; case['r'] = rs; case['ang'] = [list(gen_angle(rng)) for _ in rs]
    else:
        D = gen_D(rng)
        case['D'] = D; case['R'] = gen_radii(rng, D, int(rng.integers(5, 9 if not big else 14)))
        case['ang'] = [list(gen_angle(rng)) for _ in range(int(rng.integers(1, 6 if not big else 9)))]
    case['reqs'] = gen_reqs(rng, int(rng.integers(3, 9 if not big else 14)), cache)
    return case


def all_modes():
    return [(n, m) for n in range(NMAX + 1) for m in range(-n, n + 1, 2)]


def directed_cases():
    """every one of the 231 modes on each grid kind, with the centre and the rim among the points"""
    modes = all_modes()
    reqs = [[n, m, True] for n, m in modes]
    reqs_mixed = [[n, m, (n + m) % 4 != 0] for n, m in modes]
    angs = [[1, 0, 1], [3, 4, 5], [-5, 12, 13], [0, -1, 1], [-15, -8, 17]]
    return [
        {'kind': 'cart-regular', 'cache': True, 'dims': [5, 5], 'delta': 0.25, 'D': 1.0, 'reqs': reqs},
        {'kind': 'cart-regular', 'cache': False, 'dims': [3, 4], 'delta': 0.25, 'D': 0.75, 'reqs': reqs_mixed},
        # round 5: a regular pupil grid with 12 pixels *exactly* on the rim 2r = D ((+-3,+-4)/8, (+-4,+-3)/8, (+-5,0)/8, (0,+-5)/8; hypot exact):
        # the mask `(2 r) < D` is strict, the rim is outside (model: rim_is_outside, rim_cartesian); without cut-off the value there is
        # the azimuthal factor alone because R_n^m(1) = 1 (mode_on_rim)
        {'kind': 'cart-regular', 'cache': True, 'dims': [11, 11], 'delta': 0.125, 'D': 1.25,
         'reqs': [[n, m, (n + m) % 4 == 0] for n, m in modes if n in (0, 1, 2, 3, 4, 7, 12, 19, 20)]},
        {'kind': 'cart-points', 'cache': True, 'x': [0.0, 0.375, -0.3125, 0.5, 0.0], 'y': [0.0, 0.5, 0.75, 0.0, -0.25], 'D': 1.25, 'reqs': reqs_mixed},
        {'kind': 'polar-points', 'cache': True, 'D': 1.5, 'r': [0.0, 0.75, 0.125, 0.5, 1.0, 2.0 ** -20], 'ang': angs + [[4, 3, 5]], 'reqs': reqs},
        {'kind': 'polar-separated', 'cache': True, 'D': 1.0, 'R': [0.0, 0.125, 0.25, 0.4375, 0.5, 0.625], 'ang': angs, 'reqs': reqs_mixed},
        {'kind': 'polar-separated', 'cache': False, 'D': 0.5, 'R': [0.0, 0.125, 0.25, 0.5], 'ang': angs[:2], 'reqs': reqs},
        # a cache shared by requests with and without the cut-off, same (n, |m|) repeated
        {'kind': 'polar-separated', 'cache': True, 'D': 0.5, 'R': [0.0, 0.125, 0.25, 0.5, 0.75], 'ang': angs[:3],
         'reqs': [[2, 2, True], [4, 2, True], [6, 2, True], [3, 1, True], [3, -1, False], [3, 1, False], [2, 2, False], [6, -2, False], [4, 0, True], [4, 0, False]]},
        {'kind': 'polar-points', 'cache': True, 'D': 0.5, 'r': [0.0, 0.125, 0.25, 0.5, 0.75], 'ang': angs,
         'reqs': [[2, 2, True], [4, 2, True], [6, 2, True], [3, 1, True], [3, -1, False], [3, 1, False], [2, 2, False], [6, -2, False], [4, 0, True], [4, 0, False]]},
    ]


# ---------------------------------------------------------------------------------------------
# grids and exact points

def build(case):
    """Returns (grid, pts): pts = ('polar', r[float], [(cn,sn,den)]) or ('cart', x[float], y[float]) in the
    order of grid points."""
    import hcipy
    k = case['kind']
    if k == 'cart-regular':
        dims = np.array(case['dims']); delta = case['delta']
        grid = hcipy.make_pupil_grid(dims, dims * delta)
        return grid, ('cart', [float(v) for v in grid.x], [float(v) for v in grid.y])
    if k == 'cart-points':
        x = np.array(case['x'], dtype=float); y = np.array(case['y'], dtype=float)
        grid = hcipy.CartesianGrid(hcipy.UnstructuredCoords([x, y]))
        return grid, ('cart', list(map(float, x)), list(map(float, y)))
    if k == 'cart-separated':
        xs = np.array(case['xs'], dtype=float); ys = np.array(case['ys'], dtype=float)
        grid = hcipy.CartesianGrid(hcipy.SeparatedCoords((xs, ys)))
        return grid, ('cart', [float(x) for _ in ys for x in xs], [float(y) for y in ys for _ in xs])      # x varies fastest
    if k == 'polar-points':
        r = np.array(case['r'], dtype=float)
        th = np.array([math.atan2(s, c) for c, s, d in case['ang']])
        grid = hcipy.PolarGrid(hcipy.UnstructuredCoords([r, th]))
        return grid, ('polar', list(map(float, r)), [tuple(a) for a in case['ang']])
    if k == 'polar-separated':
        R = np.array(case['R'], dtype=float)
        th = np.array([math.atan2(s, c) for c, s, d in case['ang']])
        grid = hcipy.PolarGrid(hcipy.SeparatedCoords((R, th)))
        rr = [float(v) for _ in case['ang'] for v in R]          # R varies fastest
        aa = [tuple(a) for a in case['ang'] for _ in R]
        return grid, ('polar', rr, aa)
    raise MachineryError('unknown grid kind %r' % k)


def pts_line(pts, case=None):
    if case is not None and case.get('kind') == 'polar-separated':
        ang = case['ang']
        return 'C13 pts sep %s %s %s' % (rat_list(case['R']), rat_list([Fraction(c, d) for c, s, d in ang]),
                                         rat_list([Fraction(s, d) for c, s, d in ang]))
    if pts[0] == 'polar':
        return 'C13 pts polar %s %s %s' % (rat_list(pts[1]), rat_list([Fraction(c, d) for c, s, d in pts[2]]),
                                           rat_list([Fraction(s, d) for c, s, d in pts[2]]))
    return 'C13 pts cart %s %s' % (rat_list(pts[1]), rat_list(pts[2]))


def rim_mask(pts, D):
    """points exactly on the rim 2r = D, decided on exact rationals"""
    Df = Fraction(D)
    if pts[0] in ('polar', 'polarf'):
        return np.array([2 * Fraction(r) == Df for r in pts[1]], dtype=bool)
    return np.array([4 * (Fraction(x) ** 2 + Fraction(y) ** 2) == Df * Df for x, y in zip(pts[1], pts[2])], dtype=bool)


def cut_info(pts, D):
    """(outside[bool], ambiguous[bool]) of `2 r < D`.  Polar points: decided by the float comparison the
    code itself makes (r, D dyadic: exact).  Cartesian: decided exactly on rationals; ambiguous where
    float hypot cannot be trusted to land on the same side."""
    if pts[0] in ('polar', 'polarf'):
        r = np.array(pts[1])
        return ~((2 * r) < D), np.zeros(len(r), dtype=bool)
    out, amb = [], []
    Df = Fraction(D)
    for x, y in zip(pts[1], pts[2]):
        q = 4 * (Fraction(x) ** 2 + Fraction(y) ** 2)
        d2 = Df * Df
        out.append(not (q < d2))
        if q == d2:
            amb.append(not (2 * np.hypot(x, y) == D))          # exact rim point: float hypot must be exact too
        else:
            amb.append(abs(q - d2) < Fraction(1, 10 ** 12) * d2)
    return np.array(out), np.array(amb)


# ---------------------------------------------------------------------------------------------
# the definition, in extended precision (independent of the recursion and of the model)

_coef_cache = {}


def def_coeffs(n, m):
    key = (n, m)
    if key not in _coef_cache:
        f = math.factorial
        _coef_cache[key] = [(n - 2 * k, (-1) ** k * f(n - k) // (f(k) * f((n + m) // 2 - k) * f((n - m) // 2 - k)))
                            for k in range((n - m) // 2 + 1)]
    return _coef_cache[key]


def reference(n, m, D, cut, pts, outside):
    """sqrt(n+1) R_n^|m|(2r/D) {sqrt2 cos(m θ), sqrt2 sin(|m| θ), 1}, zero outside when cut off."""
    if pts[0] == 'polar':
        r = np.array(pts[1], dtype=LD)
        th = np.array([np.arctan2(LD(s) / LD(d), LD(c) / LD(d)) for c, s, d in pts[2]], dtype=LD)
    elif pts[0] == 'polarf':            # polar points whose angle is only known as the float the grid holds (after rotate / shift)
        r = np.array(pts[1], dtype=LD); th = np.array(pts[2], dtype=LD)
    else:
        x = np.array(pts[1], dtype=LD); y = np.array(pts[2], dtype=LD)
        r = np.hypot(x, y); th = np.arctan2(y, x)
    rho = 2 * r / LD(D)
    R = np.zeros(len(r), dtype=LD)
    for e, c in def_coeffs(n, abs(m)):
        R = R + LD(c) * rho ** e
    if m > 0:
        A = np.sqrt(LD(2)) * np.cos(m * th)
    elif m < 0:
        A = np.sqrt(LD(2)) * np.sin(-m * th)
    else:
        A = np.ones(len(r), dtype=LD)
    Z = np.sqrt(LD(n + 1)) * R * A
    if cut:
        Z = np.where(outside, LD(0), Z)
    # magnitude of the factors: an azimuthal factor near a zero of cos/sin carries an absolute error
    # of a few ulp *of the radial factor*, so tolerances scale with this, not with |Z| alone
    Rm = np.where(outside, LD(0), R) if cut else R
    mag = float(np.max(np.abs(np.sqrt(LD(2 * (n + 1))) * Rm))) if len(r) else 0.0
    return Z, mag


# ---------------------------------------------------------------------------------------------

def key_name(k):
    """cache key of the code -> key name of the model's protocol"""
    if isinstance(k, tuple) and len(k) == 3 and k[0] == 'rad':
        return 'rad.%d.%d' % (k[1], k[2])
    if isinstance(k, tuple) and len(k) == 3 and k[0] == 'rad_reduced':
        return 'red.%d.%d' % (k[1], k[2])
    if isinstance(k, tuple) and len(k) == 2 and k[0] == 'azim':
        return 'azim.%d' % k[1]
    return 'other:%r' % (k,)


def is_array(v):
    return isinstance(v, np.ndarray) and v.ndim > 0


def real_values(hz, grid, D, reqs, cache, trace=None):
    """one zernike() call per request, in order, against one cache (or none).  With `trace` (a list) the cache is
    inspected after every call: slots added (name -> float or array copy, and the identity of the stored object),
    slots whose stored object or bytes changed since they were first seen."""
    res = []
    seen = {}          # name -> (id, bytes or float)
    with warnings.catch_warnings():
        warnings.simplefilter('ignore')
        for n, m, cut in reqs:
            try:
                z = hz.zernike(n, m, D, grid, radial_cutoff=bool(cut), cache=cache)
                res.append(np.array(z, dtype=float).copy())
            except Exception as e:      # noqa
                res.append('raises-' + type(e).__name__)
            if trace is not None and cache is not None:
                added, changed, removed = {}, {}, []
                for k, v in cache.items():
                    name = key_name(k)
                    sig = (id(v), np.asarray(v, dtype=float).tobytes() if is_array(v) else float(v))
                    val = np.array(v, dtype=float).copy() if is_array(v) else float(v)
                    if name not in seen:
                        added[name] = (val, id(v))
                    elif seen[name] != sig:
                        changed[name] = (val, id(v))
                    seen[name] = sig
                names = set(key_name(k) for k in cache)
                for name in list(seen):
                    if name not in names:
                        removed.append(name); del seen[name]
                trace.append({'added': added, 'changed': changed, 'removed': removed})
    return res


def judge(case, real, fresh, refs, amb, npts, rim=None):
    """The property clauses on the observations of the real code. Returns [(key, what)]."""
    bad = []
    kind = case['kind']
    for qi, ((n, m, cut), z, zf, (ref, mag)) in enumerate(zip(case['reqs'], real, fresh, refs)):
        tag = 'zernike(%d,%d,D=%r,cutoff=%s) on %s grid' % (n, m, case['D'], cut, kind)
        if isinstance(z, str):
            bad.append(('raises ' + kind, '%s %s' % (tag, z), qi)); continue
        if z.shape != (npts,):
            bad.append(('field-length ' + kind, '%s returned %d values for %d grid points' % (tag, z.size, npts), qi)); continue
        refd = ref.astype(float)
        scale = max(1.0, mag)
        err = np.abs(z - refd); err[amb & bool(cut)] = 0.0
        nan = np.isnan(z) & ~(amb & bool(cut))
        if nan.any():
            j = int(np.nonzero(nan)[0][0])
            centre = bool(refd[j] == refd[j]) and n - abs(m) >= 4 and point_radius(case, j) == 0.0
            bad.append(('nan-at-centre' if centre else 'nan ' + kind, '%s is NaN at point %d (definition gives %.12g)' % (tag, j, refd[j]), qi))
        elif (err > TOL * scale).any():
            j = int(np.argmax(err))
            bad.append(('value ' + kind, '%s = %.12g at point %d, definition gives %.12g' % (tag, z[j], j, refd[j]), qi))
        if rim is not None and rim.any() and cut:
            # the aperture is the open disc: with the cut-off a point exactly on the rim carries exactly 0 (no tolerance)
            nz = rim & ~amb & ~(z == 0.0)
            if nz.any():
                j = int(np.nonzero(nz)[0][0])
                bad.append(('rim-not-outside ' + kind, '%s = %r at point %d, which lies exactly on the rim 2r = D (mask is `(2 r) < D`: 0 expected)' % (tag, z[j], j), qi))
        if case['cache'] and not isinstance(zf, str) and zf.shape == z.shape:
            d = ~((z == zf) | (np.isnan(z) & np.isnan(zf)))
            if d.any():
                j = int(np.nonzero(d)[0][0])
                bad.append(('cache-dependence ' + kind, '%s with a shared cache = %r at point %d, without cache %r (request history matters)' % (tag, z[j], j, zf[j]), qi))
    return bad


def point_radius(case, j):
    k = case['kind']
    if k == 'polar-points':
        return case['r'][j]
    if k == 'polar-separated':
        return case['R'][j % len(case['R'])]
    grid, pts = build(case)
    return math.hypot(pts[1][j], pts[2][j])


def shrink(hz, case, key, qi):
    """smaller request histories that still fail the same clause: the failing request alone, the earlier
    requests for the same (n, |m|) plus the failing one, the prefix up to the failing one"""
    reqs = case['reqs']
    n0, m0 = reqs[qi][0], abs(reqs[qi][1])
    same = [q for q in reqs[:qi] if q[0] == n0 and abs(q[1]) == m0]
    cands = [dict(case, reqs=[reqs[qi]], cache=False), dict(case, reqs=[reqs[qi]]), dict(case, reqs=same[-1:] + [reqs[qi]]),
             dict(case, reqs=same + [reqs[qi]]), dict(case, reqs=reqs[:qi + 1])]
    for c in cands:
        grid, pts, real, fresh, outside, amb, refs = observe(hz, c)
        for k, what, _ in judge(c, real, fresh, refs, amb, len(pts[1]), rim_mask(pts, c['D'])):
            if k == key:
                return c, what
    return case, None


def observe(hz, case, trace=None):
    grid, pts = build(case)
    D = case['D']
    cache = {} if case['cache'] else None
    real = real_values(hz, grid, D, case['reqs'], cache, trace)
    fresh = real if not case['cache'] else [real_values(hz, grid, D, [q], None)[0] for q in case['reqs']]
    outside, amb = cut_info(pts, D)
    both = [reference(n, m, D, cut, pts, outside) for n, m, cut in case['reqs']]
    refs = [(z, mag) for z, mag in both]
    return grid, pts, real, fresh, outside, amb, refs



# ---------------------------------------------------------------------------------------------
# the cache, state by state (array-level model `C13 amemo`, per-point model `C13 memo`)

def req_str(reqs):
    return ','.join('%d:%d:%d' % (n, m, 1 if cut else 0) for n, m, cut in reqs)


def cache_axes(case, pts):
    """(rho, theta) in 80-bit on the axis the radial / azimuthal cache arrays live on"""
    D = LD(case['D'])
    if case['kind'] == 'polar-separated':
        rho = 2 * np.array(case['R'], dtype=LD) / D
        th = np.array([np.arctan2(LD(s) / LD(d), LD(c) / LD(d)) for c, s, d in case['ang']], dtype=LD)
    elif pts[0] == 'polar':
        rho = 2 * np.array(pts[1], dtype=LD) / D
        th = np.array([np.arctan2(LD(s) / LD(d), LD(c) / LD(d)) for c, s, d in pts[2]], dtype=LD)
    else:
        x = np.array(pts[1], dtype=LD); y = np.array(pts[2], dtype=LD)
        rho = 2 * np.hypot(x, y) / D; th = np.arctan2(y, x)
    return rho, th


def entry_reference(name, rho, th):
    """what a valid cache holds under a key, from the definition (independent of the recursion and of the model)"""
    parts = name.split('.')
    if parts[0] == 'rad':
        n, m = int(parts[1]), int(parts[2])
        return radial_reference(n, m, rho), [n, m, False]
    if parts[0] == 'red':
        n, m = int(parts[1]), int(parts[2])
        t = rho * rho
        S = np.zeros(len(rho), dtype=LD)
        for e, c in def_coeffs(n, m):
            S = S + LD(c) * t ** ((e - m) // 2)
        return S, [n, m, False]
    if parts[0] == 'azim':
        m = int(parts[1])
        A = np.sqrt(LD(2)) * (np.cos(m * th) if m > 0 else np.sin(-m * th))
        return A, [abs(m), m, False]
    return None, None


def cache_oracle(hz, case, pts, trace):
    """Property oracle on the cache itself: after the history every slot must hold what the definition gives on its
    axis, and no slot may have changed after it was stored.  Returns [(name, why, probe request)]."""
    rho, th = cache_axes(case, pts)
    final, bad = {}, []
    for st in trace:
        for name, (val, _) in st['added'].items():
            final[name] = val
        for name, (val, _) in st['changed'].items():
            final[name] = val
            ref, probe = entry_reference(name, rho, th)
            bad.append((name, 'cache slot %s was modified after it was stored' % name, probe))
        for name in st['removed']:
            final.pop(name, None)
    for name, val in final.items():
        ref, probe = entry_reference(name, rho, th)
        if ref is None:
            continue
        refd = ref.astype(float)
        v = np.broadcast_to(np.asarray(val, dtype=float), refd.shape) if np.ndim(val) == 0 or np.shape(val) == refd.shape else None
        if v is None:
            bad.append((name, 'cache slot %s has shape %r, its axis has %d points' % (name, np.shape(val), len(refd)), probe)); continue
        scale = max(1.0, float(np.max(np.abs(refd))) if len(refd) else 1.0)
        err = np.abs(v - refd)
        if np.isnan(v).any() or (err > TOL * scale).any():
            j = int(np.nanargmax(np.where(np.isnan(v), np.inf, err)))
            bad.append((name, 'cache slot %s holds %.12g at axis index %d, the definition gives %.12g' % (name, v[j], j, refd[j]), probe))
    return bad


def parse_amemo(line, nreq):
    if not line.startswith('ok '):
        raise MachineryError('model answered %r to an amemo request' % line[:80])
    steps = line[3:].split('|')
    if len(steps) != nreq:
        raise MachineryError('amemo: %d steps for %d requests' % (len(steps), nreq))
    out = []
    for stp in steps:
        f = stp.split(';')
        res = parse_rat_list(f[0])
        added, changed = {}, {}
        for e in f[1:]:
            name, val = e[1:].split('=', 1)
            if val.startswith('s:'):
                item = ('s', Fraction(val[2:]), None)
            else:
                ref, arr = val[1:].split(':', 1)
                item = ('a', parse_rat_list(arr), int(ref))
            (added if e[0] == '+' else changed)[name] = item
        out.append((res, added, changed))
    return out


def to_float(q):
    return float(LD(q.numerator) / LD(q.denominator))


def compare_amemo(ctx, case, trace, real, line, values, amb, mags):
    """state-by-state correspondence of the real cache with the array-level model"""
    steps = parse_amemo(line, len(case['reqs']))
    id2ref, ref2id = {}, {}
    info = {k: v for k, v in case.items() if k != 'reqs'}
    for qi, ((res, madd, mchg), st, (n, m, cut), z) in enumerate(zip(steps, trace, case['reqs'], real)):
        ctx.traces_validated += 1
        here = {'case': info, 'reqs': case['reqs'][:qi + 1], 'step': qi}
        if set(madd) != set(st['added']) or set(mchg) != set(st['changed']) or st['removed']:
            ctx.disagree('C13 amemo keys', dict(here, impl={'added': sorted(st['added']), 'changed': sorted(st['changed']), 'removed': st['removed']},
                                                model={'added': sorted(madd), 'changed': sorted(mchg)}))
            return
        for name, (kind, mval, ref) in madd.items():
            val, ident = st['added'][name]
            ctx.count('amemo-slot:' + name.split('.')[0] + (':float' if kind == 's' else ':array'))
            if (kind == 's') != (np.ndim(val) == 0):
                ctx.disagree('C13 amemo slot-kind', dict(here, key=name, impl='float' if np.ndim(val) == 0 else 'ndarray', model='float' if kind == 's' else 'ndarray'))
                return
            if kind == 'a':
                if id2ref.setdefault(ident, ref) != ref or ref2id.setdefault(ref, ident) != ident:
                    ctx.disagree('C13 amemo aliasing', dict(here, key=name, detail='the stored ndarray is shared with another slot differently from the model'))
                    return
            if not values:
                continue
            mv = np.array([to_float(mval)]) if kind == 's' else np.array([to_float(v) for v in mval])
            rv = np.atleast_1d(np.asarray(val, dtype=float))
            if name.startswith('azim'):
                mv = mv * math.sqrt(2.0)
            if rv.shape != mv.shape or np.isnan(rv).any() or (np.abs(rv - mv) > TOL * max(1.0, float(np.max(np.abs(mv))) if len(mv) else 1.0)).any():
                ctx.disagree('C13 amemo slot-value', dict(here, key=name, impl=[repr(x) for x in rv[:6]], model=[repr(x) for x in mv[:6]]))
                return
        if values and not isinstance(z, str):
            nf = norm_factor(n, m)
            mv = np.array([float(nf * (LD(v.numerator) / LD(v.denominator))) for v in res])
            r = compare_vec(z, mv, mags[qi], amb, cut, len(mv))
            if r:
                ctx.disagree('C13 amemo result', dict(here, detail=r[1]))
                return

def check_values(ctx, hz):
    ncases = ctx.scale(140, 6000)
    cases = directed_cases()
    for k in range(ncases):
        cases.append(gen_case(ctx.rng, big=(ctx.tier == 'thorough' and k % 4 == 0)))
    lines, slots, amemo_slots, memo_slots = [], [], [], []
    for case in cases:
        trace = [] if case['cache'] else None
        grid, pts, real, fresh, outside, amb, refs = observe(hz, case, trace)
        npts = len(pts[1])
        rim = rim_mask(pts, case['D'])
        bad = judge(case, real, fresh, refs, amb, npts, rim)
        if trace is not None:
            # the cache itself: every slot valid and never modified; a spoiled slot is turned into a failing request
            # history by asking for that mode once more, without cut-off
            for name, why, probe in cache_oracle(hz, case, pts, trace):
                ctx.count('cache-slot-spoiled')
                pc = dict(case, reqs=case['reqs'] + [probe]) if probe else case
                g2, p2, real2, fresh2, out2, amb2, refs2 = observe(hz, pc)
                found = [(k, w, qi) for k, w, qi in judge(pc, real2, fresh2, refs2, amb2, len(p2[1]), rim_mask(p2, pc['D'])) if qi == len(pc['reqs']) - 1 or not probe]
                if found:
                    k, w, qi = found[0]
                    small, what2 = shrink(hz, pc, k, qi)
                    ctx.violation(k, (what2 or w) + ' [%s]' % why, small)
                else:
                    ctx.disagree('C13 cache-slot', {'case': {k: v for k, v in case.items()}, 'slot': name, 'detail': why})
                break
        seen = set()
        for key, what, qi in bad:
            if key not in seen:
                seen.add(key)
                small, what2 = shrink(hz, case, key, qi) if not any(v['key'] == key for v in ctx.violations) else (case, None)
                ctx.violation(key, what2 or what, small)
        ctx.boundary_skipped += int(amb.sum())
        ctx.count('points', npts); ctx.count('rim-ambiguous-points', int(amb.sum()))
        ctx.count('grid:' + case['kind']); ctx.count('cache:' + str(case['cache']))
        rr = np.array(pts[1]) if pts[0] == 'polar' else np.hypot(np.array(pts[1]), np.array(pts[2]))
        has0 = bool((rr == 0).any()); hasrim = bool((2 * rr == case['D']).any())
        ctx.count('cases-with-centre-point', int(has0)); ctx.count('cases-with-rim-point', int(hasrim))
        ctx.count('rim-exact-points:' + case['kind'], int((rim & ~amb).sum()))
        ctx.count('rim-exact-evaluations:cutoff', int((rim & ~amb).sum()) * sum(1 for q in case['reqs'] if q[2]))
        ctx.count('rim-exact-evaluations:no-cutoff', int((rim & ~amb).sum()) * sum(1 for q in case['reqs'] if not q[2]))
        lines.append(pts_line(pts, case))
        base_slot = len(slots)
        if trace is not None and len(trace) == len(case['reqs']):
            mags = [mag for _, mag in refs]
            ctx.count('amemo-histories:' + case['kind']); ctx.count('amemo-requests', len(case['reqs']))
            if pts[0] == 'polar':
                amemo_slots.append((len(lines), case, trace, real, True, amb, mags))
                lines.append('C13 amemo new %s %s' % (rat(case['D']), req_str(case['reqs'])))
                j = int(ctx.rng.integers(0, npts))
                c, s_, d = pts[2][j]
                memo_slots.append((len(lines), case, j, real, amb, mags))
                lines.append('C13 memo %s %s %s %s new %s' % (rat(case['D']), rat(pts[1][j]), rat(Fraction(c, d)), rat(Fraction(s_, d)), req_str(case['reqs'])))
                ctx.count('memo-histories')
            else:
                # Cartesian grids: the cached arrays are irrational (hypot, arctan2); slot names, float/array kinds and
                # sharing are compared on a one-point stand-in, values are left to the oracle above
                lines.append('C13 pts polar [1/2] [1/1] [0/1]')
                amemo_slots.append((len(lines), case, trace, real, False, amb, mags))
                lines.append('C13 amemo new %s %s' % (rat(case['D']), req_str(case['reqs'])))
                lines.append(pts_line(pts, case))
        for (n, m, cut), z in zip(case['reqs'], real):
            ctx.count('n-|m|>=4' if n - abs(m) >= 4 else 'n-|m|<4')
            ctx.count('order:%d' % n)
            ctx.case({'kind': case['kind'], 'D': case['D'], 'n': n, 'm': m, 'cutoff': cut, 'cache': case['cache'], 'npts': npts}
                     if n >= 6 and case['kind'] != 'cart-regular' else None,
                     (case['kind'], n, m, bool(cut), case['cache'], has0, hasrim) if npts > 0 else None)
            slots.append((len(lines), case, n, m, cut, z, amb, refs[len(slots) - base_slot][1]))
            lines.append('C13 mode %d %d %s %d' % (n, m, rat(case['D']), 1 if cut else 0))
    total_pts = ctx.dist.get('points', 0)
    if total_pts and ctx.boundary_skipped > 0.05 * total_pts:
        raise MachineryError('generator produced %d ambiguous rim points of %d' % (ctx.boundary_skipped, total_pts))
    # ---- correspondence: the model's exact rational factor times sqrt(normSq) vs the code
    out = ctx.model(lines)
    for idx, case, trace, real, values, amb, mags in amemo_slots:
        compare_amemo(ctx, case, trace, real, out[idx], values, amb, mags)
    for idx, case, j, real, amb, mags in memo_slots:
        if not out[idx].startswith('ok '):
            raise MachineryError('model answered %r to %r' % (out[idx][:60], lines[idx][:80]))
        q = parse_rat_list(out[idx][3:])
        for qi, ((n, m, cut), z, v) in enumerate(zip(case['reqs'], real, q)):
            ctx.traces_validated += 1
            if isinstance(z, str) or (amb[j] and cut):
                continue
            mvj = float(norm_factor(n, m) * (LD(v.numerator) / LD(v.denominator)))
            if np.isnan(z[j]) or abs(z[j] - mvj) > TOL * max(1.0, mags[qi]):
                ctx.disagree('C13 memo', {'case': {k: v_ for k, v_ in case.items() if k != 'reqs'}, 'reqs': case['reqs'][:qi + 1], 'point': j,
                                          'impl': repr(z[j]), 'model': repr(mvj)})
                break
    for idx, case, n, m, cut, z, amb, mag in slots:
        if not out[idx].startswith('ok '):
            raise MachineryError('model answered %r to %r' % (out[idx][:60], lines[idx]))
        q = parse_rat_list(out[idx][3:])
        nf = norm_factor(n, m)
        mv = np.array([float(nf * (LD(v.numerator) / LD(v.denominator))) for v in q])
        ctx.traces_validated += 1
        if isinstance(z, str) or z.shape != mv.shape:
            ctx.disagree('C13 mode', {'case': case, 'req': [n, m, cut], 'impl': z if isinstance(z, str) else 'length %d' % z.size, 'model': 'length %d' % len(mv)},
                         key=None)
            continue
        scale = max(1.0, mag)
        err = np.abs(z - mv); skip = amb & bool(cut); err[skip] = 0.0
        if (np.isnan(z) & ~skip).any() or (err > TOL * scale).any():
            j = int(np.nanargmax(np.where(np.isnan(z) & ~skip, np.inf, err)))
            ctx.disagree('C13 mode', {'case': {k: v for k, v in case.items() if k != 'reqs'}, 'req': [n, m, cut], 'point': j,
                                      'impl': repr(z[j]), 'model': repr(mv[j])})


# ---------------------------------------------------------------------------------------------
# bases and orthonormality (oracles on the real code only)

def check_basis(ctx, hz):
    """make_zernike_basis (Noll/ANSI, cache on/off) column by column against zernike(), and
    orthonormality of the first 231 modes by a quadrature that is exact for these polynomials."""
    import hcipy
    # Gauss-Legendre in r on [0, 1] (weight r dr), uniform in θ: exact for degree <= 2*NMAX+1, |m| <= 2*NMAX
    nr, nt = 24, 96
    xg, wg = np.polynomial.legendre.leggauss(nr)
    R = (xg + 1) / 2; wr = wg / 2 * R
    Th = 2 * np.pi * np.arange(nt) / nt
    grid = hcipy.PolarGrid(hcipy.SeparatedCoords((R, Th)))
    w = np.tile(wr, nt) * (2 * np.pi / nt) / np.pi
    nmodes = (NMAX + 1) * (NMAX + 2) // 2
    for ansi in (False, True):
        for use_cache in (True, False):
            tag = 'make_zernike_basis(%d, D=2, separated polar grid, ansi=%s, use_cache=%s)' % (nmodes, ansi, use_cache)
            case = {'what': 'basis', 'ansi': ansi, 'use_cache': use_cache}
            try:
                with warnings.catch_warnings():
                    warnings.simplefilter('ignore')
                    basis = hz.make_zernike_basis(nmodes, 2, grid, starting_mode=0 if ansi else 1, ansi=ansi, use_cache=use_cache)
                    M = np.array(basis.transformation_matrix)
            except Exception as e:      # noqa
                ctx.violation('basis-raises polar-separated', '%s raises %s' % (tag, type(e).__name__), case)
                continue
            ctx.case(None, ('basis', ansi, use_cache))
            ctx.count('basis-evaluations')
            if M.shape != (grid.size, nmodes):
                ctx.violation('field-length polar-separated', '%s has shape %r, expected %r' % (tag, M.shape, (grid.size, nmodes)), case)
                continue
            if np.isnan(M).any():
                ctx.violation('nan polar-separated', '%s contains NaN' % tag, case)
                continue
            G = M.T @ (M * w[:, None])
            dev = np.abs(G - np.eye(nmodes))
            if dev.max() > 1e-8:
                i, j = np.unravel_index(int(np.argmax(dev)), dev.shape)
                ctx.violation('orthonormal', '%s: <Z_%d, Z_%d> = %.12g over the unit disc' % (tag, i, j, G[i, j]), case)
            # columns are the modes of the documented index maps
            conv = hz.ansi_to_zernike if ansi else hz.noll_to_zernike
            for col in ctx.rng.choice(nmodes, size=12, replace=False):
                i = int(col) + (0 if ansi else 1)
                n, m = conv(i)
                with warnings.catch_warnings():
                    warnings.simplefilter('ignore')
                    z = np.array(hz.zernike(n, m, 2, grid))
                if z.shape != M[:, col].shape or not np.array_equal(z, M[:, col], equal_nan=True):
                    ctx.violation('basis-column', '%s: column %d differs from zernike(%d,%d)' % (tag, col, n, m), case)
                    break



# =============================================================================================
# Part D: the other public entry points called directly, and every spelling of the API

def compare_vec(z, ref, mag, amb, cut, npts):
    """None if the observed vector matches the reference, else (clause, detail)."""
    if isinstance(z, str):
        return ('raises', z)
    z = np.asarray(z, dtype=float)
    if z.shape != (npts,):
        return ('field-length', 'returned shape %r for %d points' % (z.shape, npts))
    refd = np.asarray(ref, dtype=float)
    skip = amb & bool(cut)
    err = np.abs(z - refd); err[skip] = 0.0
    if (np.isnan(z) & ~skip).any():
        j = int(np.nonzero(np.isnan(z) & ~skip)[0][0])
        return ('value', 'NaN at point %d (definition gives %.12g)' % (j, refd[j]))
    if (err > TOL * max(1.0, mag)).any():
        j = int(np.argmax(err))
        return ('value', '%.12g at point %d, definition gives %.12g' % (z[j], j, refd[j]))
    return None


def radial_reference(n, m, r0):
    """R_n^|m|(r) in 80-bit arithmetic from the factorial definition; r0 = radii as floats"""
    rho = np.array(r0, dtype=LD)
    R = np.zeros(len(rho), dtype=LD)
    for e, c in def_coeffs(n, abs(m)):
        R = R + LD(c) * rho ** e
    return R


def azim_reference(m, angs):
    th = np.array([np.arctan2(LD(s) / LD(d), LD(c) / LD(d)) for c, s, d in angs], dtype=LD)
    if m > 0:
        return np.sqrt(LD(2)) * np.cos(m * th)
    if m < 0:
        return np.sqrt(LD(2)) * np.sin(-m * th)
    return np.ones(len(th), dtype=LD)


def gen_direct_case(rng):
    npts = int(rng.integers(3, 9))
    rs = sorted(set([0.0, 1.0] + [float(rng.integers(0, 321)) / 256.0 for _ in range(npts)]))
    case = {'what': 'direct', 'r': rs, 'ang': [list(gen_angle(rng)) for _ in rs],
            'container': ['ndarray', 'field', 'coords', 'separated'][int(rng.integers(0, 4))],
            'cache': bool(rng.random() < 0.5)}
    reqs = []
    for _ in range(int(rng.integers(3, 8))):
        u = rng.random()
        if u < 0.35:                      # low azimuthal orders, where r**m degenerates (m = 0, 1, 2)
            m = int(rng.integers(0, 3)); n = m + 2 * int(rng.integers(0, (NMAX - m) // 2 + 1))
        else:
            n = int(rng.integers(0, NMAX + 1)); m = n % 2 + 2 * int(rng.integers(0, n // 2 + 1))
        reqs.append([n, -m if rng.random() < 0.5 else m])
    if rng.random() < 0.5:
        reqs += [list(q) for q in reqs[:2]]
    case['reqs'] = reqs
    return case


DIRECTED_DIRECT = [
    {'what': 'direct', 'r': [0.0, 0.25, 0.5, 0.75, 1.0], 'ang': [[1, 0, 1], [3, 4, 5], [-5, 12, 13], [0, -1, 1], [-15, -8, 17]],
     'container': c, 'cache': k, 'reqs': [[1, 1], [3, 1], [3, -1], [5, 1], [2, 0], [4, 0], [2, 2], [4, 2], [3, 3], [7, -1], [3, 1], [0, 0], [1, -1]]}
    for c in ('ndarray', 'field', 'coords', 'separated') for k in (False, True)]


def direct_containers(case):
    """caller-owned objects handed to zernike_radial / zernike_azimuthal: returns (r_obj, th_obj, watched)
    where watched = list of (name, array-like) that must be bit-identical afterwards"""
    import hcipy
    r = np.array(case['r'], dtype=float)
    th = np.array([math.atan2(s, c) for c, s, d in case['ang']])
    k = case['container']
    if k == 'ndarray':
        return r, th, [('r', r), ('theta', th)]
    if k == 'separated':
        g = hcipy.PolarGrid(hcipy.SeparatedCoords((r, th)))
        R, T = g.separated_coords
        return R, T, [('grid.separated_coords[0]', R), ('grid.separated_coords[1]', T)]
    g = hcipy.PolarGrid(hcipy.UnstructuredCoords([r, th]))
    if k == 'field':
        return g.r, g.theta, [('grid.r', g.coords[0]), ('grid.theta', g.coords[1])]
    return g.coords[0], g.coords[1], [('grid.coords[0]', g.coords[0]), ('grid.coords[1]', g.coords[1])]


def run_direct(hz, case):
    """Returns (bad, rad_obs, azi_obs): clauses failing on the real code, and the observed vectors."""
    robj, tobj, watched = direct_containers(case)
    before = [np.asarray(a).tobytes() for _, a in watched]
    r0 = list(case['r']); npts = len(r0)
    none = np.zeros(npts, dtype=bool)
    bad, rad_obs, azi_obs = [], [], []

    def mutated(fn, n, m):
        for (name, a), b in zip(watched, before):
            if np.asarray(a).tobytes() != b:
                return ('input-mutated ' + fn, '%s(%d,%d,…) changed the caller\'s %s' % (fn, n, m, name) if fn == 'zernike_radial'
                        else '%s(%d,…) changed the caller\'s %s' % (fn, m, name))
        return None

    for rnd in (0, 1):
        cache_r = {} if case['cache'] else None
        cache_a = {} if case['cache'] else None
        for qi, (n, m) in enumerate(case['reqs']):
            with warnings.catch_warnings():
                warnings.simplefilter('ignore')
                try:
                    v = np.array(hz.zernike_radial(n, m, robj, cache_r), dtype=float).copy()
                except Exception as e:      # noqa
                    v = 'raises-' + type(e).__name__
                try:
                    a = hz.zernike_azimuthal(m, tobj, cache_a)
                    a = np.array(np.broadcast_to(np.asarray(a, dtype=float), (npts,))).copy()
                except Exception as e:      # noqa
                    a = 'raises-' + type(e).__name__
            ref = radial_reference(n, m, r0)
            c = compare_vec(v, ref, float(np.max(np.abs(ref))), none, False, npts)
            if c:
                bad.append(('direct zernike_radial ' + c[0] + (' repeat' if rnd else ''),
                            'zernike_radial(%d,%d,r%s)%s: %s' % (n, m, ',cache' if case['cache'] else '', ' on the second pass over the same array' if rnd else '', c[1]), qi))
            refa = azim_reference(m, [tuple(x) for x in case['ang']])
            c = compare_vec(a, refa, 2.0, none, False, npts)
            if c:
                bad.append(('direct zernike_azimuthal ' + c[0] + (' repeat' if rnd else ''),
                            'zernike_azimuthal(%d,theta)%s: %s' % (m, ' on the second pass' if rnd else '', c[1]), qi))
            for fn in ('zernike_radial',):
                mu = mutated(fn, n, m)
                if mu and not any(b[0] == mu[0] for b in bad):
                    bad.append((mu[0], mu[1], qi))
            if rnd == 0:
                rad_obs.append(v); azi_obs.append(a)
    return bad, rad_obs, azi_obs


def check_direct(ctx, hz):
    cases = list(DIRECTED_DIRECT) + [gen_direct_case(ctx.rng) for _ in range(ctx.scale(150, 3000))]
    lines, slots = [], []
    for case in cases:
        bad, rad_obs, azi_obs = run_direct(hz, case)
        seen = set()
        for key, what, qi in bad:
            if key not in seen:
                seen.add(key)
                small = dict(case, reqs=case['reqs'][:qi + 1])
                for cand in (dict(case, reqs=[case['reqs'][qi]]), dict(case, reqs=[case['reqs'][qi], case['reqs'][qi]])):
                    if any(k == key for k, _, _ in run_direct(hz, cand)[0]):
                        small = cand; break
                ctx.violation(key, what + ' (%s, %d points)' % (case['container'], len(case['r'])), small)
        ctx.count('direct:' + case['container']); ctx.count('direct-calls', 4 * len(case['reqs']))
        npts = len(case['r'])
        ones = [1] * npts
        lines.append('C13 pts polar %s %s %s' % (rat_list(case['r']), rat_list(ones), rat_list([0] * npts)))
        for (n, m), v in zip(case['reqs'], rad_obs):
            ctx.case(None, ('direct-radial', case['container'], n, abs(m), case['cache']))
            slots.append((len(lines), 'zernike_radial', case, n, m, v, 1.0))
            lines.append('C13 mode %d %d 2 0' % (n, abs(m)))
        lines.append('C13 pts polar %s %s %s' % (rat_list(ones), rat_list([Fraction(c, d) for c, s, d in case['ang']]),
                                                 rat_list([Fraction(s, d) for c, s, d in case['ang']])))
        for (n, m), a in zip(case['reqs'], azi_obs):
            ctx.case(None, ('direct-azim', case['container'], m, case['cache']))
            slots.append((len(lines), 'zernike_azimuthal', case, abs(m), m, a, 1.0 if m == 0 else math.sqrt(2.0)))
            lines.append('C13 mode %d %d 2 0' % (abs(m), m))
    out = ctx.model(lines)
    for idx, fn, case, n, m, v, factor in slots:
        if not out[idx].startswith('ok '):
            raise MachineryError('model answered %r to %r' % (out[idx][:60], lines[idx]))
        mv = np.array([factor * float(LD(q.numerator) / LD(q.denominator)) for q in parse_rat_list(out[idx][3:])])
        ctx.traces_validated += 1
        if isinstance(v, str) or v.shape != mv.shape or np.isnan(v).any() or (np.abs(v - mv) > TOL * max(1.0, float(np.max(np.abs(mv))))).any():
            ctx.disagree('C13 ' + fn, {'case': {k: case[k] for k in ('r', 'ang', 'container', 'cache')}, 'n': n, 'm': m,
                                      'impl': v if isinstance(v, str) else [repr(x) for x in v[:6]], 'model': [repr(x) for x in mv[:6]]})


# =============================================================================================
# Part E: the radial polynomial as a polynomial (model layer `radialPoly` / `radialDef` / `pint01`)
#
# The theorems `radial_table`, `radial_poly_eq_def`, `radial_poly_eval`, `radial_orthonormal`, `radial_product_eval` are about
# the coefficient lists the q-recursion produces symbolically.  The real recursion is run symbolically as well:
# `zernike_radial(n, m, x)` with `x = numpy.polynomial.Polynomial([0, 1])` executes the code's own `h1, h2, h3`
# arithmetic on polynomials and returns the polynomial the code computes (float coefficients).
# =============================================================================================

def poly_pairs():
    return [(n, m) for n in range(NMAX + 1) for m in range(n + 1) if (n - m) % 2 == 0]


def dense_def(n, m):
    """coefficients of r^0 … r^n of R_n^|m| from the factorial definition (exact integers)"""
    v = [0] * (n + 1)
    for e, c in def_coeffs(n, abs(m)):
        v[e] = c
    return v


def run_poly(hz, case):
    """symbolic run of the real recursion: one zernike_radial(n, m, x, cache) per request, in order, against one cache or
    none.  Returns (bad, coefficient vectors observed)."""
    from numpy.polynomial import Polynomial
    x = Polynomial([0.0, 1.0])
    cache = {} if case['cache'] else None
    bad, obs = [], []
    for qi, (n, m) in enumerate(case['reqs']):
        try:
            with warnings.catch_warnings():
                warnings.simplefilter('ignore')
                pz = hz.zernike_radial(n, m, x, cache)
            co = np.array(pz.coef, dtype=float) if isinstance(pz, Polynomial) else np.atleast_1d(np.array(pz, dtype=float))
        except Exception as e:      # noqa
            co = 'raises-' + type(e).__name__
        obs.append(co)
        ref = np.array(dense_def(n, m), dtype=float)
        tag = 'zernike_radial(%d,%d,x%s) as a polynomial in x' % (n, m, ',cache' if case['cache'] else '')
        if isinstance(co, str):
            bad.append(('radial-polynomial raises', '%s: %s' % (tag, co), qi)); continue
        if x.coef.tolist() != [0.0, 1.0]:
            bad.append(('radial-polynomial input-mutated', '%s changed its argument' % tag, qi)); continue
        k = max(len(co), len(ref))
        a = np.zeros(k); a[:len(co)] = co
        b = np.zeros(k); b[:len(ref)] = ref
        err = np.abs(a - b)
        if np.isnan(a).any() or (err > TOL * max(1.0, float(np.max(np.abs(b))))).any():
            j = int(np.nanargmax(np.where(np.isnan(a), np.inf, err)))
            bad.append(('radial-polynomial coefficient', '%s: coefficient of x^%d is %.15g, the definition gives %.15g' % (tag, j, a[j], b[j]), qi))
    return bad, obs


def gl_nodes(k):
    t, w = np.polynomial.legendre.leggauss(k)
    return (t + 1.0) / 2.0, w / 2.0


def run_ortho(hz, case):
    """∫₀¹ R_n^m R_n'^m r dr by Gauss-Legendre quadrature (exact for the degree) of the real zernike_radial values.
    Returns (bad, Gram matrix over case['orders'])."""
    xs, ws = gl_nodes(case['nodes'])
    m = case['m']
    cache = {} if case['cache'] else None
    rows = []
    bad = []
    for n in case['orders']:
        try:
            with warnings.catch_warnings():
                warnings.simplefilter('ignore')
                v = np.array(np.broadcast_to(np.asarray(hz.zernike_radial(n, m, xs, cache), dtype=float), xs.shape)).copy()
        except Exception as e:      # noqa
            bad.append(('radial-orthonormality raises', 'zernike_radial(%d,%d,nodes): %s' % (n, m, type(e).__name__), [n, n]))
            v = np.full(xs.shape, np.nan)
        rows.append(v)
    R = np.array(rows)
    G = (R * (ws * xs)) @ R.T
    for a, n in enumerate(case['orders']):
        for b, n2 in enumerate(case['orders']):
            want = 1.0 / (2 * (n + 1)) if n == n2 else 0.0
            if not (abs(G[a, b] - want) <= TOL):
                if not any(k == 'radial-orthonormality' for k, _, _ in bad):
                    bad.append(('radial-orthonormality', 'integral over [0,1] of R_%d^%d R_%d^%d r dr = %.12g by %d-point Gauss-Legendre '
                                'quadrature of zernike_radial, expected %.12g' % (n, m, n2, m, G[a, b], case['nodes'], want), [n, n2]))
    return bad, G


def check_polynomials(ctx, hz):
    rng = ctx.rng
    pairs = poly_pairs()
    # -- the range of the tables
    out = ctx.model(['C13 pairs %d' % NMAX])
    ctx.traces_validated += 1
    if out[0] != 'ok ' + ','.join('%d:%d' % nm for nm in pairs):
        ctx.disagree('C13 pairs', {'nmax': NMAX, 'model': out[0][:200], 'harness': len(pairs)})
    # -- coefficient lists: recursion (model) vs recursion (code, run symbolically) vs definition
    cases = [{'what': 'poly', 'cache': False, 'reqs': [list(nm) for nm in pairs]},
             {'what': 'poly', 'cache': True, 'reqs': [list(nm) for nm in pairs]}]
    for _ in range(ctx.scale(3, 40)):
        k = int(rng.integers(5, 60))
        reqs = []
        for i in rng.integers(0, len(pairs), size=k):
            n, m = pairs[int(i)]
            reqs.append([n, -m if rng.random() < 0.5 else m])
        if rng.random() < 0.5:
            reqs += [list(q) for q in reqs[:3]]
        cases.append({'what': 'poly', 'cache': bool(rng.random() < 0.7), 'reqs': reqs})
    lines, slots = [], []
    for nm in pairs:
        lines.append('C13 defpoly %d %d' % nm)
    for case in cases:
        bad, obs = run_poly(hz, case)
        seen = set()
        for key, what, qi in bad:
            if key in seen:
                continue
            seen.add(key)
            small = dict(case, reqs=case['reqs'][:qi + 1])
            cand = dict(case, reqs=[case['reqs'][qi]])
            if any(k == key for k, _, _ in run_poly(hz, cand)[0]):
                small = cand
            ctx.violation(key, what, small)
        ctx.count('poly-histories:cache=%s' % case['cache']); ctx.count('poly-requests', len(case['reqs']))
        for (n, m), co in zip(case['reqs'], obs):
            ctx.case(None, ('poly', n, abs(m), case['cache']))
            slots.append((len(lines), case, n, m, co))
            lines.append('C13 poly %d %d' % (n, m))
    out = ctx.model(lines)
    for i, (n, m) in enumerate(pairs):
        ctx.traces_validated += 1
        if not out[i].startswith('ok ') or [int(q) if q.denominator == 1 else q for q in parse_rat_list(out[i][3:])] != dense_def(n, m):
            ctx.disagree('C13 defpoly', {'n': n, 'm': m, 'model': out[i][:200], 'definition': dense_def(n, m)})
    for idx, case, n, m, co in slots:
        if not out[idx].startswith('ok '):
            raise MachineryError('model answered %r to %r' % (out[idx][:60], lines[idx]))
        mv = np.array([to_float(q) for q in parse_rat_list(out[idx][3:])])
        ctx.traces_validated += 1
        k = max(len(mv), 0 if isinstance(co, str) else len(co))
        if not isinstance(co, str):
            a = np.zeros(k); a[:len(co)] = co
            b = np.zeros(k); b[:len(mv)] = mv
        if isinstance(co, str) or np.isnan(a).any() or (np.abs(a - b) > TOL * max(1.0, float(np.max(np.abs(b))))).any():
            ctx.disagree('C13 poly', {'n': n, 'm': m, 'cache': case['cache'], 'history': len(case['reqs']),
                                      'impl': co if isinstance(co, str) else [repr(v) for v in co], 'model': out[idx][3:200]})
    # -- evaluation of the coefficient list = the pointwise recursion = the code at that point
    lines, slots = [], []
    for n, m in pairs:
        rs = [Fraction(0), Fraction(1), Fraction(1, 2 ** 20)] + [Fraction(int(rng.integers(1, 320)), 256) for _ in range(ctx.scale(2, 6))]
        with warnings.catch_warnings():
            warnings.simplefilter('ignore')
            try:
                v = np.array(np.broadcast_to(np.asarray(hz.zernike_radial(n, m, np.array([float(r) for r in rs])), dtype=float), (len(rs),)))
            except Exception as e:      # noqa
                v = None
        for j, r in enumerate(rs):
            slots.append((len(lines), n, m, r, None if v is None else float(v[j])))
            lines.append('C13 polyeval %d %d %s' % (n, m, r))
            lines.append('C13 radial %d %d %s' % (n, m, r))
        ctx.count('polyeval-points', len(rs))
    out = ctx.model(lines)
    for idx, n, m, r, v in slots:
        if not (out[idx].startswith('ok ') and out[idx + 1].startswith('ok ')):
            raise MachineryError('model answered %r / %r to %r' % (out[idx][:60], out[idx + 1][:60], lines[idx]))
        ctx.traces_validated += 2
        if out[idx] != out[idx + 1]:
            ctx.disagree('C13 polyeval', {'n': n, 'm': m, 'r': str(r), 'peval radialPoly': out[idx], 'radialEval': out[idx + 1]})
        mv = to_float(Fraction(out[idx][3:]))
        if v is None or np.isnan(v) or abs(v - mv) > TOL * max(1.0, abs(mv)):
            ctx.disagree('C13 polyeval', {'n': n, 'm': m, 'r': str(r), 'impl': repr(v), 'model': out[idx][3:]})
    # -- radial orthonormality: exact integral of the model's product polynomial vs quadrature of the code's values
    lines, slots = [], []
    for m in range(NMAX + 1):
        orders = [n for n in range(m, NMAX + 1, 2)]
        perm = [orders[int(i)] for i in rng.permutation(len(orders))]
        case = {'what': 'ortho', 'm': m, 'orders': perm, 'cache': bool(rng.random() < 0.5), 'nodes': 32}
        bad, G = run_ortho(hz, case)
        for key, what, nn in bad:
            small = dict(case, orders=sorted(set(nn)))
            if not any(k == key for k, _, _ in run_ortho(hz, small)[0]):
                small = case
            ctx.violation(key, what, small)
        ctx.count('ortho-blocks'); ctx.count('ortho-integrals', len(perm) ** 2)
        for a, n in enumerate(perm):
            for b, n2 in enumerate(perm):
                ctx.case(None, ('ortho', m, n, n2))
                slots.append((len(lines), m, n, n2, float(G[a, b])))
                lines.append('C13 ortho %d %d %d' % (n, n2, m))
    out = ctx.model(lines)
    for idx, m, n, n2, g in slots:
        if not out[idx].startswith('ok '):
            raise MachineryError('model answered %r to %r' % (out[idx][:60], lines[idx]))
        q = Fraction(out[idx][3:])
        ctx.traces_validated += 1
        if not (abs(g - to_float(q)) <= TOL):
            ctx.disagree('C13 ortho', {'n': n, "n'": n2, 'm': m, 'impl (32-point Gauss-Legendre of zernike_radial)': repr(g), 'model': str(q)})


# =============================================================================================
# Part F: make_zernike_basis with a grid, column by column against the array-level model `basisA` (`C13 abasis`)
# =============================================================================================

_ORDER = {}


def documented_mode(ansi, i):
    if not _ORDER:
        _ORDER['noll'] = expected_noll(NMAX + 2); _ORDER['ansi'] = expected_ansi(NMAX + 2)
    a, b = _ORDER['ansi' if ansi else 'noll']
    j = i if ansi else i - 1
    return int(a[j]), int(b[j])


def gen_abasis_case(rng, big=False):
    kind = ['polar-points', 'polar-separated'][int(rng.integers(0, 2))]
    D = gen_D(rng)
    case = {'what': 'abasis', 'kind': kind, 'D': D, 'cache': True, 'reqs': []}
    if kind == 'polar-points':
        case['r'] = gen_radii(rng, D, int(rng.integers(4, 9 if not big else 16)))
        case['ang'] = [list(gen_angle(rng)) for _ in case['r']]
    else:
        case['R'] = gen_radii(rng, D, int(rng.integers(4, 8 if not big else 12)))
        case['ang'] = [list(gen_angle(rng)) for _ in range(int(rng.integers(1, 5 if not big else 8)))]
    ansi = bool(rng.random() < 0.5)
    num = int(rng.integers(1, 13 if not big else 40))
    lo = 0 if ansi else 1
    total = (NMAX + 1) * (NMAX + 2) // 2
    start = int(rng.integers(lo, lo + total - num + 1)) if rng.random() < 0.7 else lo
    case.update(ansi=ansi, num=num, start=start, cut=[None, True, False][int(rng.integers(0, 3))],
                use_cache=[None, True, False][int(rng.integers(0, 3))])
    return case


def run_abasis(hz, case):
    """Returns (bad, columns or None, pts, amb, mags)"""
    grid, pts = build(case)
    D = case['D']
    outside, amb = cut_info(pts, D)
    cut = True if case['cut'] is None else case['cut']
    npts = len(pts[1])
    kw = {}
    if case['cut'] is not None:
        kw['radial_cutoff'] = case['cut']
    if case['use_cache'] is not None:
        kw['use_cache'] = case['use_cache']
    tag = 'make_zernike_basis(%d,D=%r,grid,starting_mode=%d,ansi=%r%s) on a %s grid' % (
        case['num'], D, case['start'], case['ansi'], ''.join(',%s=%r' % kv for kv in kw.items()), case['kind'])
    before = [np.asarray(c).tobytes() for c in (grid.separated_coords if grid.is_separated else grid.coords)]
    try:
        with warnings.catch_warnings():
            warnings.simplefilter('ignore')
            B = hz.make_zernike_basis(case['num'], D, grid, case['start'], case['ansi'], **kw)
            M = B.transformation_matrix
            M = np.asarray(M.todense()) if hasattr(M, 'todense') else np.asarray(M, dtype=float)
    except Exception as e:      # noqa
        return [('basis-grid raises', '%s raises %s: %s' % (tag, type(e).__name__, e), 0)], None, pts, amb, []
    bad, mags = [], []
    if M.shape != (npts, case['num']):
        return [('basis-grid shape', '%s: transformation matrix has shape %r for %d points and %d modes' % (tag, M.shape, npts, case['num']), 0)], None, pts, amb, []
    after = [np.asarray(c).tobytes() for c in (grid.separated_coords if grid.is_separated else grid.coords)]
    if before != after:
        bad.append(('basis-grid input-mutated', '%s changed the coordinates of the grid' % tag, 0))
    for j in range(case['num']):
        n, m = documented_mode(case['ansi'], case['start'] + j)
        ref, mag = reference(n, m, D, cut, pts, outside)
        mags.append(mag)
        c = compare_vec(M[:, j], ref, mag, amb, cut, npts)
        if c and not any(k == 'basis-grid ' + c[0] for k, _, _ in bad):
            bad.append(('basis-grid ' + c[0], '%s: column %d (documented mode n=%d, m=%d): %s' % (tag, j, n, m, c[1]), j))
    return bad, M, pts, amb, mags


def check_abasis(ctx, hz):
    rng = ctx.rng
    angs = [[1, 0, 1], [3, 4, 5], [-5, 12, 13], [0, -1, 1], [-15, -8, 17]]
    cases = [{'what': 'abasis', 'kind': 'polar-separated', 'D': 1.0, 'R': [0.0, 0.125, 0.25, 0.4375, 0.5, 0.625], 'ang': angs, 'cache': True, 'reqs': [],
              'ansi': a, 'num': 231, 'start': 0 if a else 1, 'cut': None, 'use_cache': u} for a in (False, True) for u in (None, False)]
    cases += [{'what': 'abasis', 'kind': 'polar-points', 'D': 1.5, 'r': [0.0, 0.75, 0.125, 0.5, 1.0, 2.0 ** -20], 'ang': angs + [[4, 3, 5]], 'cache': True, 'reqs': [],
               'ansi': True, 'num': 231, 'start': 0, 'cut': False, 'use_cache': True}]
    cases += [gen_abasis_case(rng, not ctx.quick()) for _ in range(ctx.scale(40, 600))]
    lines, slots = [], []
    for case in cases:
        bad, M, pts, amb, mags = run_abasis(hz, case)
        seen = set()
        for key, what, j in bad:
            if key in seen:
                continue
            seen.add(key)
            small = dict(case, start=case['start'] + j, num=1)
            if not any(k == key for k, _, _ in run_abasis(hz, small)[0]):
                small = dict(case, num=j + 1)
            ctx.violation(key, what, small)
        ctx.count('abasis:%s' % case['kind']); ctx.count('abasis:ansi=%r,cut=%r,use_cache=%r' % (case['ansi'], case['cut'], case['use_cache']))
        ctx.count('abasis-columns', case['num'])
        for j in range(case['num']):
            n, m = documented_mode(case['ansi'], case['start'] + j)
            ctx.case(None, ('abasis', case['kind'], n, m, case['cut'], case['use_cache']))
        lines.append(pts_line(pts, case))
        cut = True if case['cut'] is None else case['cut']
        uc = True if case['use_cache'] is None else case['use_cache']
        slots.append((len(lines), case, M, amb, mags, cut))
        lines.append('C13 abasis %d %d %d %d %d %s' % (case['ansi'], case['start'], case['num'], cut, uc, rat(case['D'])))
    out = ctx.model(lines)
    for idx, case, M, amb, mags, cut in slots:
        if not out[idx].startswith('ok '):
            raise MachineryError('model answered %r to %r' % (out[idx][:60], lines[idx]))
        cols = out[idx][3:].split('|')
        brief = {k: v for k, v in case.items() if k not in ('reqs', 'cache')}
        if len(cols) != case['num']:
            raise MachineryError('abasis: %d columns for %d modes' % (len(cols), case['num']))
        for j, col in enumerate(cols):
            nm, arr = col.split('=', 1)
            n, m = (int(x) for x in nm.split(':'))
            ctx.traces_validated += 1
            if (n, m) != documented_mode(case['ansi'], case['start'] + j):
                ctx.disagree('C13 abasis mode', dict(brief, column=j, model=[n, m], documented=list(documented_mode(case['ansi'], case['start'] + j))))
                break
            if M is None:
                ctx.disagree('C13 abasis', dict(brief, column=j, impl='raises / wrong shape', model='a column'))
                break
            nf = norm_factor(n, m)
            mv = np.array([float(nf * (LD(v.numerator) / LD(v.denominator))) for v in parse_rat_list(arr)])
            r = compare_vec(M[:, j], mv, mags[j], amb, cut, len(mv))
            if r:
                ctx.disagree('C13 abasis', dict(brief, column=j, mode=[n, m], detail=r[1]))
                break


# =============================================================================================
# Part G: Field generators of make_zernike_basis(…, grid=None) called on two polar grids in any order, against the
# array-level model `runGensA` (`C13 gens own`); the model with one shared cache (`shared`) is the D130 behaviour
# =============================================================================================

def gen_polar_grid(rng, D, like=None):
    """a polar grid description; `like`: same kind and number of points as that one, other points"""
    kind = like['kind'] if like else ['polar-points', 'polar-separated'][int(rng.integers(0, 2))]
    g = {'kind': kind, 'D': D}
    if kind == 'polar-points':
        k = len(like['r']) if like else None
        rs = gen_radii(rng, D, int(rng.integers(3, 8)))
        while k is not None and len(rs) != k:
            rs = (rs + [float(rng.integers(1, 200)) / 256.0 * D])[:k] if len(rs) < k else rs[:k]
        g['r'] = rs; g['ang'] = [list(gen_angle(rng)) for _ in rs]
    else:
        k = len(like['R']) if like else None
        R = gen_radii(rng, D, int(rng.integers(3, 7)))
        while k is not None and len(R) != k:
            R = (R + [float(rng.integers(1, 200)) / 256.0 * D])[:k] if len(R) < k else R[:k]
        g['R'] = R
        g['ang'] = [list(gen_angle(rng)) for _ in range(len(like['ang']) if like else int(rng.integers(1, 5)))]
    return g


def gen_gens_case(rng):
    D = gen_D(rng)
    A = gen_polar_grid(rng, D)
    B = gen_polar_grid(rng, D, like=A if rng.random() < 0.5 else None)      # same size, other points: a stale cache would go unnoticed by shapes
    ansi = bool(rng.random() < 0.5)
    num = int(rng.integers(1, 9))
    lo = 0 if ansi else 1
    total = (NMAX + 1) * (NMAX + 2) // 2
    start = int(rng.integers(lo, lo + total - num + 1)) if rng.random() < 0.7 else lo
    calls = [[int(rng.integers(0, num)), int(rng.integers(0, 2))] for _ in range(int(rng.integers(2, 2 * num + 4)))]
    if rng.random() < 0.5:
        calls = [[j, 0] for j in range(num)] + [[j, 1] for j in range(num)] + calls[:3]
    return {'what': 'gens', 'D': D, 'A': A, 'B': B, 'ansi': ansi, 'num': num, 'start': start, 'calls': calls,
            'cut': [None, True, False][int(rng.integers(0, 3))], 'use_cache': [None, True, False][int(rng.integers(0, 3))]}


def run_gens(hz, case):
    """Returns (bad, observed vectors per call, [(pts, amb)] per grid, magnitudes per call)"""
    D = case['D']
    built = [build(case['A']), build(case['B'])]
    info = [cut_info(pts, D) for _, pts in built]
    cut = True if case['cut'] is None else case['cut']
    kw = {}
    if case['cut'] is not None:
        kw['radial_cutoff'] = case['cut']
    if case['use_cache'] is not None:
        kw['use_cache'] = case['use_cache']
    tag = 'make_zernike_basis(%d,D=%r,None,starting_mode=%d,ansi=%r%s)' % (case['num'], D, case['start'], case['ansi'], ''.join(',%s=%r' % kv for kv in kw.items()))
    try:
        gens = hz.make_zernike_basis(case['num'], D, None, case['start'], case['ansi'], **kw)
        if len(gens) != case['num']:
            raise ValueError('%d generators' % len(gens))
    except Exception as e:      # noqa
        return [('generator-grid raises', '%s raises %s: %s' % (tag, type(e).__name__, e), 0)], None, built, info, []
    bad, obs, mags = [], [], []
    for ci, (j, k) in enumerate(case['calls']):
        grid, pts = built[k]
        outside, amb = info[k]
        n, m = documented_mode(case['ansi'], case['start'] + j)
        try:
            with warnings.catch_warnings():
                warnings.simplefilter('ignore')
                z = np.array(gens[j](grid), dtype=float).copy()
        except Exception as e:      # noqa
            z = 'raises-' + type(e).__name__
        obs.append(z)
        ref, mag = reference(n, m, D, cut, pts, outside)
        mags.append(mag)
        c = compare_vec(z, ref, mag, amb, cut, len(pts[1]))
        if c and not any(key == 'generator-grid ' + c[0] for key, _, _ in bad):
            bad.append(('generator-grid ' + c[0], '%s: generator %d (documented mode n=%d, m=%d) called on grid %s (%s, %d points) as call number %d: %s' % (
                tag, j, n, m, 'AB'[k], case['AB'[k]]['kind'], len(pts[1]), ci, c[1]), ci))
    return bad, obs, built, info, mags


def check_gens(ctx, hz):
    rng = ctx.rng
    cases = [gen_gens_case(rng) for _ in range(ctx.scale(60, 1200))]
    lines, slots = [], []
    for case in cases:
        bad, obs, built, info, mags = run_gens(hz, case)
        seen = set()
        for key, what, ci in bad:
            if key in seen:
                continue
            seen.add(key)
            small = dict(case, calls=case['calls'][:ci + 1])
            for cand in (dict(case, calls=[case['calls'][ci]]), dict(case, calls=[[case['calls'][ci][0], 1 - case['calls'][ci][1]], case['calls'][ci]])):
                if any(k == key for k, _, _ in run_gens(hz, cand)[0]):
                    small = cand; break
            ctx.violation(key, what, small)
        ctx.count('gens:%s+%s' % (case['A']['kind'], case['B']['kind'])); ctx.count('gens-calls', len(case['calls']))
        ctx.count('gens:same-size=%r' % (len(built[0][1][1]) == len(built[1][1][1])))
        ctx.count('gens:use_cache=%r' % (case['use_cache'],))
        cut = True if case['cut'] is None else case['cut']
        calls = []
        for j, k in case['calls']:
            n, m = documented_mode(case['ansi'], case['start'] + j)
            ctx.case(None, ('gens', case['AB'[k]]['kind'], n, m, cut))
            calls.append('%d:%d:%d:%d' % (n, m, cut, k))
        lines.append(pts_line(built[1][1], case['B'])); lines.append('C13 ptsB'); lines.append(pts_line(built[0][1], case['A']))
        slots.append((len(lines), case, obs, info, mags, cut))
        lines.append('C13 gens own %s %s' % (rat(case['D']), ','.join(calls)))
    out = ctx.model(lines)
    for idx, case, obs, info, mags, cut in slots:
        if not out[idx].startswith('ok '):
            raise MachineryError('model answered %r to %r' % (out[idx][:60], lines[idx]))
        res = out[idx][3:].split('|')
        brief = {k: v for k, v in case.items() if k != 'calls'}
        if len(res) != len(case['calls']):
            raise MachineryError('gens: %d results for %d calls' % (len(res), len(case['calls'])))
        for ci, ((j, k), arr) in enumerate(zip(case['calls'], res)):
            n, m = documented_mode(case['ansi'], case['start'] + j)
            nf = norm_factor(n, m)
            mv = np.array([float(nf * (LD(v.numerator) / LD(v.denominator))) for v in parse_rat_list(arr)])
            ctx.traces_validated += 1
            if obs is None:
                ctx.disagree('C13 gens', dict(brief, impl='raises', model='values')); break
            r = compare_vec(obs[ci], mv, mags[ci], info[k][1], cut, len(mv))
            if r:
                ctx.disagree('C13 gens', dict(brief, calls=case['calls'][:ci + 1], mode=[n, m], detail=r[1]))
                break


# ---- spellings

def grid_only(rng, big=False):
    c = gen_case(rng, big)
    c.pop('reqs'); c.pop('cache')
    return c


def gen_spelling_case(rng):
    entry = ['zernike', 'zernike_noll', 'zernike_ansi', 'make_zernike_basis'][int(rng.integers(0, 4))]
    ga = grid_only(rng); gb = grid_only(rng)
    D = ga.pop('D'); gb.pop('D')
    case = {'what': 'spelling', 'entry': entry, 'gridA': ga, 'gridB': gb, 'D': D,
            'Dform': ['float', 'int', 'array0', 'float64'][int(rng.integers(0, 4))],
            'generator': bool(rng.random() < 0.5), 'keywords': bool(rng.random() < 0.5),
            'cutoff': None if rng.random() < 0.25 else bool(rng.random() < 0.5)}
    if case['Dform'] == 'int' and D != int(D):
        case['D'] = float(max(1, round(D)))          # an integer diameter, passed as a Python int
    if entry == 'zernike':
        n = int(rng.integers(0, NMAX + 1)); m = -n + 2 * int(rng.integers(0, n + 1))
        case['n'], case['m'] = n, m
    elif entry == 'zernike_noll':
        case['i'] = int(rng.integers(1, 232))
    elif entry == 'zernike_ansi':
        case['i'] = int(rng.integers(0, 231))
    else:
        ansi = bool(rng.random() < 0.5)
        num = int(rng.integers(1, 9))
        lo = 0 if ansi else 1
        start = None if rng.random() < 0.3 else int(rng.integers(lo, lo + 231 - num))
        case.update({'ansi': ansi, 'num': num, 'start': start,
                     'use_cache': None if rng.random() < 0.3 else bool(rng.random() < 0.5),
                     'order': [int(x) for x in rng.permutation(2 * num)]})
        if ansi and start is None:
            case['start'] = 1 if rng.random() < 0.5 else 0      # the default starting_mode=1 is also legal for ANSI
    return case


DIRECTED_SPELLINGS = [
    {'what': 'spelling', 'entry': 'make_zernike_basis', 'gridA': {'kind': 'cart-regular', 'dims': [4, 4], 'delta': 0.25},
     'gridB': {'kind': 'cart-regular', 'dims': [5, 3], 'delta': 0.25}, 'D': 1.0, 'Dform': df, 'generator': True, 'keywords': kw,
     'cutoff': cut, 'ansi': ansi, 'num': 6, 'start': st, 'use_cache': uc, 'order': [3, 0, 7, 10, 5, 1, 2, 11, 4, 6, 8, 9]}
    for df, kw, cut, ansi, st, uc in [('float', False, None, False, None, None), ('int', True, False, True, 3, True),
                                      ('array0', True, True, False, 4, False), ('float', False, True, True, 0, None)]
] + [
    {'what': 'spelling', 'entry': 'make_zernike_basis', 'gridA': {'kind': 'polar-separated', 'R': [0.0, 0.25, 0.5, 0.75], 'ang': [[1, 0, 1], [3, 4, 5], [0, 1, 1]]},
     'gridB': {'kind': 'polar-points', 'r': [0.0, 0.5, 0.25, 1.0], 'ang': [[1, 0, 1], [3, 4, 5], [0, 1, 1], [-4, 3, 5]]}, 'D': 1.0, 'Dform': 'float',
     'generator': True, 'keywords': False, 'cutoff': None, 'ansi': False, 'num': 5, 'start': 2, 'use_cache': None, 'order': [9, 8, 7, 6, 5, 4, 3, 2, 1, 0]},
]


def spelling_D(case):
    D = case['D']
    return {'float': float(D), 'int': int(D), 'array0': np.array(float(D)), 'float64': np.float64(D)}[case['Dform']]


def run_spelling(hz, case):
    """Returns (bad, outputs): outputs = list of (label, gridkey, n, m, cut, observed vector)"""
    en, em = expected_noll(NMAX); an, am = expected_ansi(NMAX)
    grids = {}
    for key in ('gridA', 'gridB'):
        g, pts = build(dict(case[key], D=case['D']))
        grids[key] = (g, pts, [np.asarray(c).tobytes() for c in g.coords])
    D = spelling_D(case)
    cut = True if case['cutoff'] is None else case['cutoff']
    kwcut = {} if case['cutoff'] is None else {'radial_cutoff': case['cutoff']}
    entry = case['entry']
    outs = []

    def ev(label, f, gridkey, n, m):
        with warnings.catch_warnings():
            warnings.simplefilter('ignore')
            try:
                z = np.array(f(), dtype=float).copy()
            except Exception as e:      # noqa
                z = 'raises-' + type(e).__name__
        outs.append((label, gridkey, n, m, cut, z))

    if entry in ('zernike', 'zernike_noll', 'zernike_ansi'):
        if entry == 'zernike':
            n, m = case['n'], case['m']; lead = (n, m); f = hz.zernike; tag = 'zernike(%d,%d' % (n, m)
        elif entry == 'zernike_noll':
            i = case['i']; n, m = int(en[i - 1]), int(em[i - 1]); lead = (i,); f = hz.zernike_noll; tag = 'zernike_noll(%d' % i
        else:
            i = case['i']; n, m = int(an[i]), int(am[i]); lead = (i,); f = hz.zernike_ansi; tag = 'zernike_ansi(%d' % i
        if case['generator']:
            if case['keywords']:
                gen = f(*lead, D=D, **kwcut)
            else:
                gen = f(*lead, D, None, *([case['cutoff']] if case['cutoff'] is not None else []))
            for gk in ('gridA', 'gridB', 'gridA'):
                ev(tag + ',D) generator evaluated on ' + gk, (lambda gk=gk: gen(grids[gk][0])), gk, n, m)
        else:
            for gk in ('gridA', 'gridB'):
                g = grids[gk][0]
                if case['keywords']:
                    ev(tag + ',D=,grid=) on ' + gk, (lambda g=g: f(*lead, grid=g, D=D, **kwcut)), gk, n, m)
                else:
                    ev(tag + ',D,grid) on ' + gk, (lambda g=g: f(*lead, D, g, *([case['cutoff']] if case['cutoff'] is not None else []))), gk, n, m)
    else:
        ansi, num, start = case['ansi'], case['num'], case['start']
        s0 = 1 if start is None else start
        idx = list(range(s0, s0 + num))
        nm = [(int(an[i]), int(am[i])) if ansi else (int(en[i - 1]), int(em[i - 1])) for i in idx]
        kw = dict(kwcut)
        if case['use_cache'] is not None:
            kw['use_cache'] = case['use_cache']
        tag = 'make_zernike_basis(%d,D,%s,starting_mode=%r,ansi=%s,cutoff=%r,use_cache=%r)' % (
            num, 'None' if case['generator'] else 'grid', start, ansi, case['cutoff'], case['use_cache'])

        def make(g):
            if case['keywords']:
                k2 = dict(kw, ansi=ansi)
                if start is not None:
                    k2['starting_mode'] = start
                return hz.make_zernike_basis(num_modes=num, D=D, grid=g, **k2)
            pos = [num, D, g, s0, ansi]
            return hz.make_zernike_basis(*pos, **kw)
        if case['generator']:
            try:
                with warnings.catch_warnings():
                    warnings.simplefilter('ignore')
                    gens = make(None)
                if len(gens) != num:
                    outs.append((tag + ' returns %d generators' % len(gens), 'gridA', nm[0][0], nm[0][1], cut, 'raises-WrongCount'))
                    gens = list(gens) + [gens[-1]] * num
            except Exception as e:      # noqa
                outs.append((tag, 'gridA', nm[0][0], nm[0][1], cut, 'raises-' + type(e).__name__))
                gens = None
            if gens is not None:
                for o in case['order']:            # generators evaluated in any order, on either grid
                    j, gk = o % num, ('gridA', 'gridB')[(o // num) % 2]
                    ev('%s: generator %d evaluated on %s' % (tag, j, gk), (lambda j=j, gk=gk: gens[j](grids[gk][0])), gk, nm[j][0], nm[j][1])
        else:
            for gk in ('gridA', 'gridB'):
                try:
                    with warnings.catch_warnings():
                        warnings.simplefilter('ignore')
                        basis = make(grids[gk][0])
                        M = np.array(basis.transformation_matrix, dtype=float)
                    if M.shape != (grids[gk][0].size, num):
                        outs.append((tag + ' on ' + gk + ': matrix shape %r' % (M.shape,), gk, nm[0][0], nm[0][1], cut, 'raises-WrongShape'))
                        continue
                    for j in range(num):
                        outs.append(('%s on %s: mode %d' % (tag, gk, j), gk, nm[j][0], nm[j][1], cut, M[:, j].copy()))
                except Exception as e:      # noqa
                    outs.append((tag + ' on ' + gk, gk, nm[0][0], nm[0][1], cut, 'raises-' + type(e).__name__))
    bad = []
    form = ('generator' if case['generator'] else 'direct')
    for oi, (label, gk, n, m, c, z) in enumerate(outs):
        g, pts, _ = grids[gk]
        outside, amb = cut_info(pts, case['D'])
        ref, mag = reference(n, m, case['D'], c, pts, outside)
        r = compare_vec(z, ref, mag, amb, c, len(pts[1]))
        if r:
            bad.append(('spelling %s %s %s' % (entry, form, r[0]), '%s (expected mode n=%d, m=%d; D as %s): %s' % (label, n, m, case['Dform'], r[1]), oi))
    for gk, (g, pts, before) in grids.items():
        if [np.asarray(c).tobytes() for c in g.coords] != before:
            bad.append(('input-mutated ' + entry, '%s changed the coordinates of the grid it was evaluated on' % entry, 0))
    return bad, outs, grids


def check_spellings(ctx, hz):
    cases = list(DIRECTED_SPELLINGS) + [gen_spelling_case(ctx.rng) for _ in range(ctx.scale(300, 5000))]
    lines, slots, basis_slots = [], [], []
    for case in cases:
        bad, outs, grids = run_spelling(hz, case)
        seen = set()
        for key, what, oi in bad:
            if key not in seen:
                seen.add(key)
                ctx.violation(key, what, case)
        ctx.count('spelling:%s:%s' % (case['entry'], 'generator' if case['generator'] else 'direct'))
        ctx.count('spelling-D:' + case['Dform']); ctx.count('spelling-args:' + ('keyword' if case['keywords'] else 'positional'))
        ctx.count('spelling-cutoff:%r' % case['cutoff'])
        if case['entry'] == 'make_zernike_basis':
            ctx.count('spelling-basis:ansi=%s,start=%s,use_cache=%r' % (case['ansi'], 'default' if case['start'] is None else 'given', case['use_cache']))
        if case['entry'] == 'make_zernike_basis':
            en, em = expected_noll(NMAX); an, am = expected_ansi(NMAX)
            s0 = 1 if case['start'] is None else case['start']
            want = ','.join('%d:%d' % ((an[i], am[i]) if case['ansi'] else (en[i - 1], em[i - 1])) for i in range(s0, s0 + case['num']))
            basis_slots.append((len(lines), case, want))
            lines.append('C13 basis %d %d %d' % (1 if case['ansi'] else 0, s0, case['num']))
        cur = None
        for label, gk, n, m, c, z in outs:
            g, pts, _ = grids[gk]
            ctx.case(None, ('spelling', case['entry'], case['generator'], case['keywords'], case['Dform'], case['cutoff'], case[gk]['kind'],
                            case.get('ansi'), case.get('use_cache'), case.get('start') is None, n, m))
            if cur != gk:
                lines.append(pts_line(pts)); cur = gk
            outside, amb = cut_info(pts, case['D'])
            _, mag = reference(n, m, case['D'], c, pts, outside)
            slots.append((len(lines), case, label, n, m, c, z, amb, mag))
            lines.append('C13 mode %d %d %s %d' % (n, m, rat(case['D']), 1 if c else 0))
    out = ctx.model(lines)
    for idx, case, want in basis_slots:
        ctx.traces_validated += 1
        if out[idx] != 'ok ' + want:
            ctx.disagree('C13 basis', {'case': case, 'documented': want, 'model': out[idx]})
    for idx, case, label, n, m, cut, z, amb, mag in slots:
        if not out[idx].startswith('ok '):
            raise MachineryError('model answered %r to %r' % (out[idx][:60], lines[idx]))
        q = parse_rat_list(out[idx][3:])
        nf = norm_factor(n, m)
        mv = np.array([float(nf * (LD(v.numerator) / LD(v.denominator))) for v in q])
        ctx.traces_validated += 1
        r = compare_vec(z, mv, mag, amb, cut, len(mv))
        if r:
            ctx.disagree('C13 spelling', {'label': label, 'case': case, 'n': n, 'm': m, 'detail': r[1]})


# =============================================================================================
# Part H (round 5): beyond the table.  The theorems radial_matches_definition, radial_at_zero and radial_at_one hold for
# EVERY radial order; the recursion of the code is run here for orders 21 ... 40 (thorough 44), always against one cache per
# history (without a cache the code's recursion is exponential in n - |m|), in random request orders — including the histories
# "higher |m| first, then lower |m|" that resume from cached intermediate results — at r = 0, r = 1 (the rim: value 1), r = 2^-12
# and random dyadic radii up to 1.125.  Oracle: the factorial definition in exact integer arithmetic, the unit-circle identity
# R_n^m(1) = 1, the centre value.  Correspondence: `C13 radial n m r` (radialEval, exact rationals).
# =============================================================================================

def exact_radial(n, m, r):
    r = Fraction(r)
    return sum(Fraction(c) * r ** e for e, c in def_coeffs(n, m))


def gen_high_case(rng, nhi):
    n = int(rng.integers(NMAX + 1, nhi + 1))
    ms = list(range(n % 2, n + 1, 2))
    u = rng.random()
    if u < 0.35:
        order = sorted(ms, reverse=True)                          # ANSI-like: |m| decreasing, every step resumes from the cache
    elif u < 0.5:
        order = sorted(ms)
    else:
        order = [ms[int(i)] for i in rng.permutation(len(ms))]
    k = int(rng.integers(3, len(order) + 1))
    order = order[:k]
    if rng.random() < 0.5:
        order.append(order[int(rng.integers(0, len(order)))])      # a repeated request (cache hit on ('rad', n, m))
    signs = [int(m if rng.random() < 0.5 else -m) for m in order]
    rs = [Fraction(0), Fraction(1), Fraction(1, 2 ** 12)] + [Fraction(int(rng.integers(1, 289)), 256) for _ in range(3)]
    return {'what': 'high', 'n': n, 'ms': signs, 'r': [str(r) for r in rs], 'two_orders': bool(rng.random() < 0.3)}


def run_high(hz, case):
    """Returns ([(key, what, index)], values): one cache for the whole history; with `two_orders` the history is run for n and n - 2
    interleaved against the same cache (keys of different orders must not interfere)."""
    rs = [Fraction(r) for r in case['r']]
    rf = np.array([float(r) for r in rs])
    cache = {}
    reqs = []
    for m in case['ms']:
        reqs.append((case['n'], m))
        if case.get('two_orders') and abs(m) <= case['n'] - 2:
            reqs.append((case['n'] - 2, m))
    bad, vals = [], []
    before = rf.tobytes()
    with warnings.catch_warnings():
        warnings.simplefilter('ignore')
        for qi, (n, m) in enumerate(reqs):
            try:
                v = np.array(np.broadcast_to(np.asarray(hz.zernike_radial(n, m, rf, cache), dtype=float), rf.shape))
            except Exception as e:      # noqa
                bad.append(('high-order raises', 'zernike_radial(%d,%d,r,cache) raises %s: %s' % (n, m, type(e).__name__, e), qi))
                vals.append(None); continue
            vals.append(v)
            ref = [exact_radial(n, abs(m), r) for r in rs]
            for j, (r, x, e) in enumerate(zip(rs, v, ref)):
                ef = to_float(e)
                if not (abs(x - ef) <= TOL * max(1.0, abs(ef))):
                    if r == 1:
                        key, txt = 'unit-circle', 'R_n^m(1) = 1 for every order'
                    elif r == 0:
                        key, txt = 'high-order centre', 'centre value (-1)^(n/2) for m = 0, else 0'
                    else:
                        key, txt = 'high-order value', 'factorial definition'
                    bad.append((key, 'zernike_radial(%d,%d,%s) = %r after %d cached requests, %s gives %.15g' % (n, m, r, float(x), qi, txt, ef), qi))
                    break
    if rf.tobytes() != before:
        bad.append(('input-mutated zernike_radial', 'zernike_radial changed its argument r (order %d)' % case['n'], 0))
    return bad, (reqs, vals)


def check_high_orders(ctx, hz):
    nhi = ctx.scale(40, 44)
    lines, slots, pslots = [], [], []
    for k in range(ctx.scale(14, 36)):
        case = gen_high_case(ctx.rng, nhi)
        bad, (reqs, vals) = run_high(hz, case)
        seen = set()
        for key, what, qi in bad:
            if key in seen:
                continue
            seen.add(key)
            # shrink: the failing request alone, then the history up to it
            small = case
            pos = [i for i, q in enumerate(reqs) if q[0] == case['n']]
            for cand in (dict(case, ms=[reqs[qi][1]], two_orders=False, n=reqs[qi][0]),
                         dict(case, ms=[m for (n_, m) in reqs[:qi + 1] if n_ == reqs[qi][0]], two_orders=False, n=reqs[qi][0])):
                if any(k2 == key for k2, _, _ in run_high(hz, cand)[0]):
                    small = cand; break
            ctx.violation(key, what, small)
        # the same history (first requests) run on the symbolic argument: the code's recursion returns its coefficient list, which must be the
        # factorial coefficients (exact integers) — theorem radial_poly_eq_def, every order — and the model's radialPoly
        pcase = {'what': 'poly', 'cache': True, 'reqs': [[n, m] for n, m in reqs[:6]]}
        pbad, obs = run_poly(hz, pcase)
        pseen = set()
        for key, what, qi in pbad:
            if key not in pseen:
                pseen.add(key)
                ctx.violation(key, what, dict(pcase, reqs=pcase['reqs'][:qi + 1]))
        ctx.count('high-order-symbolic-requests', len(obs))
        for (n, m), co in zip(pcase['reqs'], obs):
            pslots.append((len(lines), n, m, co))
            lines.append('C13 poly %d %d' % (n, abs(m)))
            lines.append('C13 defpoly %d %d' % (n, abs(m)))
        ctx.count('high-order-histories'); ctx.count('high-order:n=%d' % case['n']); ctx.count('high-order-requests', len(reqs))
        ctx.count('high-order:two-orders=%r' % case['two_orders'])
        for (n, m), v in zip(reqs, vals):
            ctx.case({'what': 'high', 'n': n, 'm': m}, ('high', n, m))
            for j, r in enumerate(case['r']):
                slots.append((len(lines), n, m, r, None if v is None else float(v[j])))
                lines.append('C13 radial %d %d %s' % (n, abs(m), r))
    out = ctx.model(lines)
    for idx, n, m, co in pslots:
        if not (out[idx].startswith('ok ') and out[idx + 1].startswith('ok ')):
            raise MachineryError('model answered %r / %r to %r' % (out[idx][:60], out[idx + 1][:60], lines[idx]))
        ctx.traces_validated += 2
        if out[idx] != out[idx + 1]:
            ctx.disagree('C13 poly high', {'n': n, 'm': m, 'radialPoly': out[idx][:200], 'radialDef': out[idx + 1][:200], 'theorem': 'radial_poly_eq_def'})
        ml = parse_rat_list(out[idx + 1][3:])
        if [int(q) if q.denominator == 1 else q for q in ml] != dense_def(n, m):
            ctx.disagree('C13 defpoly', {'n': n, 'm': m, 'model': out[idx + 1][:200], 'definition': dense_def(n, m)})
        mv = np.array([to_float(q) for q in parse_rat_list(out[idx][3:])])
        if isinstance(co, str) or len(co) > len(mv) and np.any(co[len(mv):] != 0):
            ctx.disagree('C13 poly high', {'n': n, 'm': m, 'impl': co if isinstance(co, str) else 'degree %d' % (len(co) - 1), 'model': 'degree %d' % (len(mv) - 1)})
            continue
        a = np.zeros(len(mv)); a[:min(len(co), len(mv))] = co[:len(mv)]
        if np.isnan(a).any() or (np.abs(a - mv) > TOL * max(1.0, float(np.max(np.abs(mv))))).any():
            ctx.disagree('C13 poly high', {'n': n, 'm': m, 'impl': [repr(v) for v in co][:8], 'model': out[idx][3:120]})
    for idx, n, m, r, v in slots:
        if not out[idx].startswith('ok '):
            raise MachineryError('model answered %r to %r' % (out[idx][:60], lines[idx]))
        ctx.traces_validated += 1
        q = Fraction(out[idx][3:])
        if Fraction(r) == 1 and q != 1:
            ctx.disagree('C13 radial high', {'n': n, 'm': m, 'r': r, 'model': str(q), 'theorem radial_at_one': '1'})
        mv = to_float(q)
        if v is None or np.isnan(v) or abs(v - mv) > TOL * max(1.0, abs(mv)):
            ctx.disagree('C13 radial high', {'n': n, 'm': m, 'r': r, 'impl': repr(v), 'model': str(q)[:80]})


def gen_highmode_case(rng, nhi):
    """zernike() itself beyond the table: one radial order n in 21..nhi, a cached history over several m of either sign with and
    without the cut-off, on an unstructured or separated polar grid that contains the centre, the exact rim and radii around it"""
    n = int(rng.integers(NMAX + 1, nhi + 1))
    ms = list(range(n % 2, n + 1, 2))
    pick = sorted(set(int(i) for i in rng.integers(0, len(ms), size=int(rng.integers(3, 7)))), reverse=bool(rng.random() < 0.6))
    reqs = []
    for i in pick:
        m = ms[i] if rng.random() < 0.5 else -ms[i]
        reqs.append([n, int(m), bool(rng.random() < 0.6)])
    if rng.random() < 0.5:
        q = reqs[int(rng.integers(0, len(reqs)))]
        reqs.append([q[0], -q[1], not q[2]])
    D = gen_D(rng)
    rs = [r for r in gen_radii(rng, D, int(rng.integers(5, 9))) if r <= 0.5625 * D]
    case = {'what': 'highmode', 'cache': True, 'D': D, 'reqs': reqs}
    if rng.random() < 0.5:
        case.update(kind='polar-points', r=rs, ang=[list(gen_angle(rng)) for _ in rs])
    else:
        case.update(kind='polar-separated', R=rs, ang=[list(gen_angle(rng)) for _ in range(int(rng.integers(1, 4)))])
    return case


def run_highmode(hz, case):
    grid, pts = build(case)
    D = case['D']
    real = real_values(hz, grid, D, case['reqs'], {} if case['cache'] else None)
    outside, amb = cut_info(pts, D)
    rim = rim_mask(pts, D)
    npts = len(pts[1])
    th = np.array([np.arctan2(LD(s_) / LD(d), LD(c) / LD(d)) for c, s_, d in pts[2]], dtype=LD)
    bad, mags = [], []
    for qi, ((n, m, cut), z) in enumerate(zip(case['reqs'], real)):
        tag = 'zernike(%d,%d,D=%r,cutoff=%s) on %s grid' % (n, m, D, cut, case['kind'])
        R = np.array([LD(to_float(exact_radial(n, abs(m), 2 * Fraction(r) / Fraction(D)))) for r in pts[1]], dtype=LD)
        A = np.sqrt(LD(2)) * np.cos(m * th) if m > 0 else (np.sqrt(LD(2)) * np.sin(-m * th) if m < 0 else np.ones(npts, dtype=LD))
        Z = np.sqrt(LD(n + 1)) * R * A
        Rm = R
        if cut:
            Z = np.where(outside, LD(0), Z); Rm = np.where(outside, LD(0), R)
        mag = float(np.max(np.abs(np.sqrt(LD(2 * (n + 1))) * Rm))) if npts else 0.0
        mags.append(mag)
        if isinstance(z, str):
            bad.append(('high-order mode raises', '%s %s' % (tag, z), qi)); continue
        if z.shape != (npts,):
            bad.append(('high-order mode field-length', '%s returned %d values for %d grid points' % (tag, z.size, npts), qi)); continue
        err = np.abs(z - Z.astype(float))
        if np.isnan(z).any() or (err > TOL * max(1.0, mag)).any():
            j = int(np.nanargmax(np.where(np.isnan(z), np.inf, err)))
            bad.append(('high-order mode value ' + case['kind'], '%s = %.12g at point %d (r = %r), definition gives %.12g' % (tag, z[j], j, pts[1][j], float(Z[j])), qi))
        if cut and (rim & ~(z == 0.0)).any():
            j = int(np.nonzero(rim & ~(z == 0.0))[0][0])
            bad.append(('rim-not-outside ' + case['kind'], '%s = %r at point %d, exactly on the rim 2r = D' % (tag, z[j], j), qi))
    return bad, (pts, real, mags, rim)


def check_high_modes(ctx, hz):
    nhi = ctx.scale(40, 44)
    lines, slots = [], []
    for k in range(ctx.scale(10, 30)):
        case = gen_highmode_case(ctx.rng, nhi)
        bad, (pts, real, mags, rim) = run_highmode(hz, case)
        seen = set()
        for key, what, qi in bad:
            if key in seen:
                continue
            seen.add(key)
            small = dict(case, reqs=[case['reqs'][qi]])
            if not any(k2 == key for k2, _, _ in run_highmode(hz, small)[0]):
                small = dict(case, reqs=case['reqs'][:qi + 1])
            ctx.violation(key, what, small)
        ctx.count('high-order-mode-cases:' + case['kind']); ctx.count('high-order-mode-requests', len(case['reqs']))
        ctx.count('high-order-mode-rim-points', int(rim.sum()))
        lines.append(pts_line(pts, case))
        for (n, m, cut), z, mag in zip(case['reqs'], real, mags):
            ctx.case({'what': 'highmode', 'n': n, 'm': m, 'cutoff': cut, 'kind': case['kind']}, ('highmode', case['kind'], n, m, bool(cut)))
            slots.append((len(lines), case, n, m, cut, z, mag))
            lines.append('C13 mode %d %d %s %d' % (n, m, rat(case['D']), 1 if cut else 0))
            lines.append('C13 normsq %d %d' % (n, m))
    out = ctx.model(lines)
    for idx, case, n, m, cut, z, mag in slots:
        if not (out[idx].startswith('ok ') and out[idx + 1].startswith('ok ')):
            raise MachineryError('model answered %r / %r to %r' % (out[idx][:60], out[idx + 1][:60], lines[idx]))
        q = parse_rat_list(out[idx][3:])
        nsq = Fraction(out[idx + 1][3:])
        nf = np.sqrt(LD(nsq.numerator) / LD(nsq.denominator))
        mv = np.array([float(nf * LD(to_float(v))) for v in q])
        ctx.traces_validated += 1
        if isinstance(z, str) or z.shape != mv.shape:
            ctx.disagree('C13 mode high', {'case': case, 'req': [n, m, cut], 'impl': z if isinstance(z, str) else 'length %d' % z.size, 'model': 'length %d' % len(mv)})
            continue
        err = np.abs(z - mv)
        if np.isnan(z).any() or (err > TOL * max(1.0, mag)).any():
            j = int(np.nanargmax(np.where(np.isnan(z), np.inf, err)))
            ctx.disagree('C13 mode high', {'case': {k: v for k, v in case.items() if k != 'reqs'}, 'req': [n, m, cut], 'point': j, 'impl': repr(z[j]), 'model': repr(mv[j])})

# =============================================================================================

# =============================================================================================
# Part I (round 6): the grid as an OBJECT WITH A HISTORY.  One grid object is used for a Zernike evaluation (any entry point), changed by
# a grid operation (reverse / scale / shift / rotate: in place, on a copy(), or through the out-of-place spelling reversed() / scaled() / …),
# and used again — also the object it was copied from.  The modes must be the modes at the points the object has NOW: the points are read
# from the object (x, y / r, theta — never through as_()), and, independently, tracked exactly through the history (Fractions; the same
# history is sent to the model: `C13 gop …`, `C13 getpts`, `C13 mode`).
# Part J: extreme units of length.  The property is Z(r / D): coordinates and D scaled together by 2^k (k up to +-520 in float64, +-100 for
# float32 coordinates) — exact in binary — must give the values of the unscaled grid; every entry point, compared with the definition
# at the unscaled points (oracle), with the model at the exactly scaled rational points (and the model with itself at both scales:
# theorem mode_cartesian_scale_invariant / mode_cut_scale_invariant on the executable) and the entry points with each other.
# =============================================================================================

GH_KINDS = ['cart-regular', 'cart-points', 'cart-separated', 'polar-points', 'polar-separated']
F32_TOL = 4096 * float(np.finfo(np.float32).eps)        # float32 coordinates: the same rule at the precision the inputs have


def gh_grid(rng):
    """(grid spec, D)"""
    if rng.random() < 0.2:
        j = int(rng.integers(3, 6))
        xs = sorted(set(float(v) / 2 ** j for v in rng.integers(-12, 13, size=int(rng.integers(2, 6)))))
        ys = sorted(set(float(v) / 2 ** j for v in rng.integers(-12, 13, size=int(rng.integers(2, 5)))))
        # every axis needs two points: the automatic weights of a separated grid (asked for by Grid.scale) are undefined for a single one
        xs = xs if len(xs) > 1 else [xs[0], xs[0] + 2.0 ** -j]
        ys = ys if len(ys) > 1 else [ys[0], ys[0] + 2.0 ** -j]
        ext = max(max(abs(v) for v in xs), max(abs(v) for v in ys), 2.0 ** -j)
        return {'kind': 'cart-separated', 'xs': xs, 'ys': ys}, float([2 * ext, ext, 3 * ext][int(rng.integers(0, 3))])
    g = grid_only(rng)
    return g, g.pop('D')


def gen_eval(rng, nmax=NMAX):
    e = ['zernike', 'zernike', 'noll', 'ansi', 'basis', 'basis'][int(rng.integers(0, 6))]
    cut = bool(rng.random() < 0.5)
    if e == 'zernike':
        n = int(rng.integers(0, nmax + 1)); m = -n + 2 * int(rng.integers(0, n + 1))
        return {'e': e, 'n': n, 'm': m, 'cut': cut, 'cache': bool(rng.random() < 0.4), 'gen': bool(rng.random() < 0.4)}
    ntab = (nmax + 1) * (nmax + 2) // 2
    if e == 'noll':
        return {'e': e, 'i': int(rng.integers(1, ntab + 1)), 'cut': cut, 'gen': bool(rng.random() < 0.4)}
    if e == 'ansi':
        return {'e': e, 'i': int(rng.integers(0, ntab)), 'cut': cut, 'gen': bool(rng.random() < 0.4)}
    ansi = bool(rng.random() < 0.5); num = int(rng.integers(1, 6))
    lo = 0 if ansi else 1
    return {'e': e, 'num': num, 'start': int(rng.integers(lo, lo + ntab - num)), 'ansi': ansi, 'cut': cut,
            'use_cache': bool(rng.random() < 0.6), 'gen': bool(rng.random() < 0.4)}


def gen_gop(rng, polar):
    u = rng.random()
    if u < 0.35:
        op, args = 'reverse', []
    elif u < 0.55:
        k = [2.0, 0.5, 4.0, 0.25, 1.5, 0.75][int(rng.integers(0, 6))]
        if not polar and rng.random() < 0.5:
            args = [k * [1, -1][int(rng.integers(0, 2))], [1.0, 2.0, 0.5, k][int(rng.integers(0, 4))] * [1, -1][int(rng.integers(0, 2))]]
        else:
            args = [k]
        op = 'scale'
    elif u < 0.8:
        op, args = 'shift', [float(rng.integers(-16, 17)) / 16.0, float(rng.integers(-16, 17)) / 16.0]
    else:
        op, args = 'rotate', [int(v) for v in gen_angle(rng)]
    return {'op': op, 'args': args, 'how': ['inplace', 'inplace', 'copy', 'new'][int(rng.integers(0, 4))]}


def gen_ghist_case(rng):
    g, D = gh_grid(rng)
    steps = []
    if rng.random() < 0.85:
        steps.append({'eval': gen_eval(rng), 'on': 'cur'})
    for _ in range(int(rng.integers(1, 5))):
        o = gen_gop(rng, g['kind'].startswith('polar'))
        steps.append(o)
        if rng.random() < 0.9:
            steps.append({'eval': gen_eval(rng), 'on': 'cur'})
        if o['how'] != 'inplace' and rng.random() < 0.5:
            steps.append({'eval': gen_eval(rng), 'on': 'old'})
    if not any('eval' in s_ for s_ in steps[1:]):
        steps.append({'eval': gen_eval(rng), 'on': 'cur'})
    return {'what': 'ghist', 'grid': g, 'D': D, 'steps': steps}


def _ghist_directed():
    ev = lambda n, m, **kw: {'eval': dict({'e': 'zernike', 'n': n, 'm': m, 'cut': True, 'cache': False, 'gen': False}, **kw), 'on': 'cur'}
    bas = {'eval': {'e': 'basis', 'num': 6, 'start': 1, 'ansi': False, 'cut': True, 'use_cache': True, 'gen': False}, 'on': 'cur'}
    out = []
    for grid in ({'kind': 'cart-regular', 'dims': [4, 3], 'delta': 0.25}, {'kind': 'cart-points', 'x': [0.0, 0.375, -0.3125, 0.5], 'y': [0.0, 0.5, 0.75, -0.125]},
                 {'kind': 'cart-separated', 'xs': [-0.5, 0.0, 0.25], 'ys': [-0.25, 0.5]}, {'kind': 'polar-points', 'r': [0.0, 0.5, 0.25, 0.75], 'ang': [[1, 0, 1], [3, 4, 5], [0, 1, 1], [-4, 3, 5]]},
                 {'kind': 'polar-separated', 'R': [0.0, 0.25, 0.5], 'ang': [[1, 0, 1], [3, 4, 5]]}):
        for op, args in (('reverse', []), ('scale', [2.0]), ('shift', [0.25, -0.125]), ('rotate', [3, 4, 5])):
            for how in ('inplace', 'copy', 'new'):
                out.append({'what': 'ghist', 'grid': grid, 'D': 1.5,
                            'steps': [ev(3, 1), {'op': op, 'args': args, 'how': how}, ev(3, 1), bas, ev(4, -2, gen=True, cut=False), dict(ev(3, -1), on='old')]})
    return out


def current_points(g):
    """the points the grid object reports now, read from its coordinates (never through as_())"""
    if g.is_('polar'):
        return ('polarf', [float(v) for v in np.array(g.r)], [float(v) for v in np.array(g.theta)])
    return ('cart', [float(v) for v in np.array(g.x)], [float(v) for v in np.array(g.y)])


def track_start(spec):
    k = spec['kind']
    if k in ('cart-regular', 'cart-points', 'cart-separated'):
        _, pts = build(dict(spec, D=1.0))
        return {'t': 'cart', 'x': [Fraction(v) for v in pts[1]], 'y': [Fraction(v) for v in pts[2]]}
    if k == 'polar-points':
        return {'t': 'polar', 'r': [Fraction(v) for v in spec['r']], 'dirs': [tuple(a) for a in spec['ang']]}
    return {'t': 'sep', 'R': [Fraction(v) for v in spec['R']], 'dirs': [tuple(a) for a in spec['ang']]}


def track_from_floats(A):
    return {'t': 'cart', 'x': [Fraction(v) for v in A[1]], 'y': [Fraction(v) for v in A[2]]} if A[0] == 'cart' else None


def track_op(T, op, args):
    """the operation on exact points (independent of the grid object); None where a polar grid has no exact answer"""
    if T is None:
        return None
    t = T['t']
    if op == 'reverse':
        if t == 'cart':
            return {'t': t, 'x': T['x'][::-1], 'y': T['y'][::-1]}
        if t == 'polar':
            return {'t': t, 'r': T['r'][::-1], 'dirs': T['dirs'][::-1]}
        return {'t': t, 'R': T['R'][::-1], 'dirs': T['dirs'][::-1]}
    if op == 'scale':
        kx = Fraction(args[0]); ky = Fraction(args[-1])
        if t == 'cart':
            return {'t': t, 'x': [kx * v for v in T['x']], 'y': [ky * v for v in T['y']]}
        if kx != ky:
            return None
        if t == 'polar':
            return {'t': t, 'r': [kx * v for v in T['r']], 'dirs': T['dirs']}
        return {'t': t, 'R': [kx * v for v in T['R']], 'dirs': T['dirs']}
    if op == 'shift':
        if t != 'cart':
            return None
        return {'t': t, 'x': [v + Fraction(args[0]) for v in T['x']], 'y': [v + Fraction(args[1]) for v in T['y']]}
    c, s_, d = args
    if t == 'cart':
        c, s_ = Fraction(c, d), Fraction(s_, d)
        return {'t': t, 'x': [c * x - s_ * y for x, y in zip(T['x'], T['y'])], 'y': [s_ * x + c * y for x, y in zip(T['x'], T['y'])]}

    def comp(a):
        c0, s0, d0 = a
        cc, ss, dd = c0 * c - s0 * s_, s0 * c + c0 * s_, d0 * d
        g_ = math.gcd(math.gcd(abs(cc), abs(ss)), dd)
        return (cc // g_, ss // g_, dd // g_)
    return dict(T, dirs=[comp(a) for a in T['dirs']])


def track_pts(T):
    """tracked points in the layout of the grid"""
    if T['t'] == 'cart':
        return ('cart', T['x'], T['y'])
    if T['t'] == 'polar':
        return ('polar', T['r'], T['dirs'])
    return ('polar', [v for _ in T['dirs'] for v in T['R']], [a for a in T['dirs'] for _ in T['R']])


def track_line(T):
    dirs = T.get('dirs', [])
    cs = rat_list([Fraction(c, d) for c, s_, d in dirs]); ss = rat_list([Fraction(s_, d) for c, s_, d in dirs])
    if T['t'] == 'cart':
        return 'C13 pts cart %s %s' % (rat_list(T['x']), rat_list(T['y']))
    if T['t'] == 'polar':
        return 'C13 pts polar %s %s %s' % (rat_list(T['r']), cs, ss)
    return 'C13 pts sep %s %s %s' % (rat_list(T['R']), cs, ss)


def track_matches(T, A):
    """do the tracked exact points equal the points the object reports?  'exact' | 'approx' | 'no'"""
    P = track_pts(T)
    if len(P[1]) != len(A[1]):
        return 'no'
    if P[0] == 'cart':
        if A[0] != 'cart':
            return 'no'
        if all(Fraction(a) == p for a, p in zip(A[1], P[1])) and all(Fraction(a) == p for a, p in zip(A[2], P[2])):
            return 'exact'
        sc = max([1e-300] + [abs(float(v)) for v in P[1] + P[2]])
        return 'approx' if all(abs(a - float(p)) <= 1e-12 * sc for a, p in zip(A[1] + A[2], P[1] + P[2])) else 'no'
    if A[0] != 'polarf' or not all(Fraction(a) == p for a, p in zip(A[1], P[1])):
        return 'no'
    ok = all(abs(math.cos(th) - c / d) + abs(math.sin(th) - s_ / d) < 1e-13 for th, (c, s_, d) in zip(A[2], P[2]))
    return 'exact' if ok else 'no'


def representable(T):
    return all(Fraction(float(v)) == v for key in ('x', 'y', 'r', 'R') for v in T.get(key, []))


def apply_gop(g, o):
    op, args, how = o['op'], o['args'], o['how']
    if op == 'reverse':
        a = ()
    elif op == 'scale':
        a = (args[0],) if len(args) == 1 else (np.array(args, dtype=float),)
    elif op == 'shift':
        a = (np.array(args, dtype=float),)
    else:
        a = (math.atan2(args[1], args[0]),)
    with warnings.catch_warnings():
        warnings.simplefilter('ignore')
        if how == 'new':
            return getattr(g, {'reverse': 'reversed', 'scale': 'scaled', 'shift': 'shifted', 'rotate': 'rotated'}[op])(*a)
        tgt = g.copy() if how == 'copy' else g
        getattr(tgt, op)(*a)
        return tgt


def eval_modes(ev, nmax=NMAX):
    """the (n, m) the evaluation must return, by the documented orderings"""
    en, em = expected_noll(max(nmax, NMAX)); an, am = expected_ansi(max(nmax, NMAX))
    if ev['e'] == 'zernike':
        return [(ev['n'], ev['m'])]
    if ev['e'] == 'noll':
        return [(int(en[ev['i'] - 1]), int(em[ev['i'] - 1]))]
    if ev['e'] == 'ansi':
        return [(int(an[ev['i']]), int(am[ev['i']]))]
    idx = range(ev['start'], ev['start'] + ev['num'])
    return [(int(an[i]), int(am[i])) if ev['ansi'] else (int(en[i - 1]), int(em[i - 1])) for i in idx]


def run_eval(hz, ev, g, D, gens, npts):
    """[(label, n, m, cut, observed vector or 'raises-…')] of one evaluation step on the grid object g; `gens`: Field generators made earlier
    in the same history (created on first use, re-used on the object in its later states)"""
    modes = eval_modes(ev)
    cut = ev['cut']
    out = []
    with warnings.catch_warnings():
        warnings.simplefilter('ignore')
        try:
            e = ev['e']
            if e == 'basis':
                key = ('basis', ev['num'], ev['start'], ev['ansi'], cut, ev['use_cache'])
                label = 'make_zernike_basis(%d,D,%s,%d,ansi=%s,cutoff=%s,use_cache=%s)' % (ev['num'], 'None' if ev['gen'] else 'grid', ev['start'], ev['ansi'], cut, ev['use_cache'])
                if ev['gen']:
                    if key not in gens:
                        gens[key] = hz.make_zernike_basis(ev['num'], D, None, ev['start'], ev['ansi'], cut, ev['use_cache'])
                    cols = [np.array(f(g), dtype=float).copy() for f in gens[key]]
                else:
                    M = np.array(hz.make_zernike_basis(ev['num'], D, g, ev['start'], ev['ansi'], cut, ev['use_cache']).transformation_matrix, dtype=float)
                    if M.shape != (npts, ev['num']):
                        return [(label + ': matrix shape %r' % (M.shape,), modes[0][0], modes[0][1], cut, 'raises-WrongShape')]
                    cols = [M[:, j].copy() for j in range(ev['num'])]
                if len(cols) != len(modes):
                    return [(label + ': %d modes' % len(cols), modes[0][0], modes[0][1], cut, 'raises-WrongCount')]
                return [('%s mode %d' % (label, j), n, m, cut, z) for j, ((n, m), z) in enumerate(zip(modes, cols))]
            n, m = modes[0]
            if e == 'zernike':
                f, lead, label = hz.zernike, (n, m), 'zernike(%d,%d' % (n, m)
                cache = {} if ev.get('cache') else None
            else:
                f, lead, label = (hz.zernike_noll if e == 'noll' else hz.zernike_ansi), (ev['i'],), 'zernike_%s(%d' % (e, ev['i'])
                cache = None
            if ev['gen']:
                key = (e,) + lead + (cut,)
                if key not in gens:
                    gens[key] = f(*lead, D, None, cut)
                z = gens[key](g); label += ',D,None,%s)(grid)' % cut
            else:
                z = f(*lead, D, g, cut, cache); label += ',D,grid,%s,cache=%s)' % (cut, 'None' if cache is None else '{}')
            out.append((label, n, m, cut, np.array(z, dtype=float).copy()))
        except Exception as ex:      # noqa
            out.append((ev['e'], modes[0][0], modes[0][1], cut, 'raises-' + type(ex).__name__))
    return out


def run_ghist(hz, case):
    """Returns (bad, script, stats): bad = [(key, what, step index)]; script = [(model line, expectation)] for the correspondence"""
    spec, D = case['grid'], case['D']
    g, _ = build(dict(spec, D=D))
    T = track_start(spec)
    old = None          # (object, tracked points) the current object was copied from
    gens = {}
    bad, script, stats = [], [], []
    script.append((track_line(T), None))
    kind = spec['kind']
    for si, st in enumerate(case['steps']):
        if 'op' in st:
            prev = (g, T)
            try:
                g2 = apply_gop(g, st)
            except Exception as ex:      # noqa
                # not a clause of C13 (the property starts from a grid that exists): the history cannot be observed -> broken correspondence
                script.append((None, ('note', '%s(%r) [%s] on a %s grid raises %s' % (st['op'], st['args'], st['how'], kind, type(ex).__name__)))); break
            if st['how'] != 'inplace':
                old = prev
            g = g2
            A = current_points(g)
            T2 = track_op(T, st['op'], st['args'])
            stats.append('ghist-op:%s:%s' % (st['op'], st['how']))
            if T2 is not None and T is not None:
                if st['op'] == 'rotate':
                    oa = [Fraction(st['args'][0], st['args'][2]), Fraction(st['args'][1], st['args'][2])]
                elif st['op'] == 'scale':
                    oa = [Fraction(st['args'][0]), Fraction(st['args'][-1])]
                else:
                    oa = [Fraction(a) for a in st['args']]
                script.append((' '.join(['C13 gop', st['op']] + [rat(a) for a in oa]), ('ok',)))
                script.append(('C13 getpts', ('pts', T2)))
                exact_kind = st['op'] != 'rotate' and representable(T2)
                mt = track_matches(T2, A)
                if T2['t'] != 'cart':
                    if mt != 'exact':
                        script.append((None, ('note', 'grid op %s%r on a %s grid: the points of the object are not the tracked ones' % (st['op'], st['args'], kind))))
                        T2 = None
                elif exact_kind and mt == 'exact':
                    stats.append('ghist-points:exact')
                elif mt in ('approx', 'exact') and not exact_kind:
                    T2 = track_from_floats(A); script.append((track_line(T2), None)); stats.append('ghist-points:resync')
                else:
                    script.append((None, ('note', 'grid op %s%r on a %s grid: the points of the object are not the tracked ones' % (st['op'], st['args'], kind))))
                    T2 = track_from_floats(A); script.append((track_line(T2), None))
            else:
                T2 = track_from_floats(A)          # a polar grid shifted: Cartesian if out of place, float polar otherwise
                if T2 is not None:
                    script.append((track_line(T2), None))
                stats.append('ghist-points:float')
            T = T2
            continue
        ev = st['eval']
        if st['on'] == 'old' and old is None:
            continue
        obj, To = (g, T) if st['on'] == 'cur' else old
        A = current_points(obj)
        npts = len(A[1])
        before = [np.asarray(c).tobytes() for c in obj.coords]
        outs = run_eval(hz, ev, obj, D, gens, npts)
        if [np.asarray(c).tobytes() for c in obj.coords] != before:
            bad.append(('grid-history input-mutated', '%s changed the coordinates of the grid it was evaluated on' % ev['e'], si))
        pts = A
        if To is not None and To['t'] != 'cart' and track_matches(To, A) == 'exact':
            pts = track_pts(To); pts = ('polar', [float(v) for v in pts[1]], pts[2])
        outside, amb = cut_info(pts, D)
        if st['on'] == 'old' and To is not None:
            script.append((track_line(To), None))
        for label, n, m, cut, z in outs:
            ref, mag = reference(n, m, D, cut, pts, outside)
            r = compare_vec(z, ref, mag, amb, cut, npts)
            stats.append('ghist-eval:%s:%s:%s' % (ev['e'], 'generator' if ev.get('gen') else 'direct', st['on']))
            if r:
                hist = ' -> '.join(('%s%r[%s]' % (s_['op'], s_['args'], s_['how'])) if 'op' in s_ else 'eval' for s_ in case['steps'][:si])
                bad.append(('grid-history %s %s' % (ev['e'], r[0]), '%s on a %s grid object after the history [%s] (%s object): %s — expected the mode n=%d, m=%d at the CURRENT points of the grid'
                            % (label, kind, hist, 'current' if st['on'] == 'cur' else 'copied-from', r[1], n, m), si))
            if To is not None:
                script.append(('C13 mode %d %d %s %d' % (n, m, rat(D), 1 if cut else 0), ('mode', label, n, m, cut, z, amb, mag)))
        if st['on'] == 'old' and T is not None:
            script.append((track_line(T), None))
    return bad, script, stats


def shrink_ghist(hz, case, key):
    """shortest prefix / sub-history that still fails the same clause"""
    steps = case['steps']
    for k in range(1, len(steps) + 1):
        for sub in ([s_ for s_ in steps[:k] if 'op' in s_ or s_ is steps[k - 1] or s_ is steps[0]], steps[:k]):
            c = dict(case, steps=sub)
            if any(b[0] == key for b in run_ghist(hz, c)[0]):
                return c
    return case


def play_all(ctx, jobs, player):
    """one batch for all scripts (every script starts by storing its own points)"""
    lines = [ln for _, script in jobs for ln, _ in script if ln is not None]
    out = ctx.model(lines)
    pos = 0
    for case, script in jobs:
        k = sum(1 for ln, _ in script if ln is not None)
        player(ctx, case, script, out[pos:pos + k]); pos += k


def play_script(ctx, case, script, answers, stream='C13 grid-history'):
    out = iter(answers)
    for ln, exp in script:
        if ln is None:
            ctx.disagree(stream, {'case': case, 'detail': exp[1]}); continue
        ans = next(out)
        if exp is None or exp[0] == 'ok':
            if ans != 'ok':
                ctx.disagree(stream, {'case': case, 'line': ln[:120], 'model': ans[:120]})
            continue
        ctx.traces_validated += 1
        if exp[0] == 'pts':
            T = exp[1]
            want = track_line(T)[len('C13 pts '):]
            if ans != 'ok ' + want:
                ctx.disagree(stream, {'case': case, 'detail': 'points after the operation', 'model': ans[:200], 'tracked': want[:200]})
        elif exp[0] == 'same':
            if ans != exp[1]():
                ctx.disagree(stream, {'case': case, 'detail': 'the model is not scale invariant', 'line': ln[:160]})
        else:
            _, label, n, m, cut, z, amb, mag = exp[:8]
            tol = exp[8] if len(exp) > 8 else TOL
            if not ans.startswith('ok '):
                raise MachineryError('model answered %r to %r' % (ans[:60], ln[:80]))
            q = parse_rat_list(ans[3:])
            nf = norm_factor(n, m) if (n, m) in NORMSQ else np.sqrt(LD((n + 1) * (1 if m == 0 else 2)))
            mv = np.array([float(nf * (LD(v.numerator) / LD(v.denominator))) for v in q])
            r = compare_vec(z, mv, mag * tol / TOL, amb, cut, len(mv)) if tol != TOL else compare_vec(z, mv, mag, amb, cut, len(mv))
            if r:
                ctx.disagree(stream, {'label': label, 'case': case, 'n': n, 'm': m, 'detail': r[1]})


def check_grid_history(ctx, hz):
    cases = _ghist_directed() + [gen_ghist_case(ctx.rng) for _ in range(ctx.scale(160, 2000))]
    jobs = []
    for case in cases:
        bad, script, stats = run_ghist(hz, case)
        seen = set()
        for key, what, si in bad:
            if key not in seen:
                seen.add(key)
                ctx.violation(key, what, shrink_ghist(hz, case, key) if not any(v['key'] == key for v in ctx.violations) else case)
        for s_ in stats:
            ctx.count(s_)
        ctx.count('ghist-grid:' + case['grid']['kind'])
        ops = tuple((s_['op'], s_['how']) for s_ in case['steps'] if 'op' in s_)
        ctx.count('ghist-length:%d' % len(ops))
        ctx.case(None, ('ghist', case['grid']['kind'], ops, tuple(s_['eval']['e'] for s_ in case['steps'] if 'eval' in s_)))
        jobs.append((case, script))
    play_all(ctx, jobs, play_script)


# ---------------------------------------------------------------------------------------------
# Part J: extreme units

def gen_scale_case(rng):
    g, D = gh_grid(rng)
    f32 = g['kind'] in ('cart-points', 'polar-points') and rng.random() < 0.5
    lim = 100 if f32 else 520
    u = rng.random()
    if u < 0.6:
        k = int(rng.integers(lim * 3 // 5, lim + 1)) * [1, -1][int(rng.integers(0, 2))]      # beyond the squares' range: x*x under/overflows
    elif u < 0.8:
        k = int(rng.integers(lim // 4, lim * 3 // 5)) * [1, -1][int(rng.integers(0, 2))]
    else:
        k = int(rng.integers(-20, 21))
    nmax = 8 if f32 else NMAX
    return {'what': 'scale', 'grid': g, 'D': D, 'k': k, 'f32': bool(f32), 'evals': [gen_eval(rng, nmax) for _ in range(int(rng.integers(2, 5)))]}


def _scale_directed():
    out = []
    evs = [{'e': 'zernike', 'n': 1, 'm': 1, 'cut': True, 'cache': False, 'gen': False}, {'e': 'zernike', 'n': 0, 'm': 0, 'cut': True, 'cache': True, 'gen': True},
           {'e': 'noll', 'i': 11, 'cut': False, 'gen': False}, {'e': 'ansi', 'i': 8, 'cut': True, 'gen': True},
           {'e': 'basis', 'num': 6, 'start': 1, 'ansi': False, 'cut': True, 'use_cache': True, 'gen': False},
           {'e': 'basis', 'num': 4, 'start': 3, 'ansi': True, 'cut': False, 'use_cache': False, 'gen': True}]
    for grid in ({'kind': 'cart-regular', 'dims': [5, 4], 'delta': 0.25}, {'kind': 'cart-points', 'x': [0.0, 0.375, -0.3125, 0.5], 'y': [0.0, 0.5, 0.75, -0.125]},
                 {'kind': 'cart-separated', 'xs': [-0.5, 0.0, 0.25], 'ys': [-0.25, 0.5]}, {'kind': 'polar-points', 'r': [0.0, 0.5, 0.25, 0.75], 'ang': [[1, 0, 1], [3, 4, 5], [0, 1, 1], [-4, 3, 5]]},
                 {'kind': 'polar-separated', 'R': [0.0, 0.25, 0.5], 'ang': [[1, 0, 1], [3, 4, 5]]}):
        for k in (-520, -512, 511, 520):
            out.append({'what': 'scale', 'grid': grid, 'D': 1.25, 'k': k, 'f32': False, 'evals': evs})
        if grid['kind'] in ('cart-points', 'polar-points'):
            for k in (-100, -64, 63, 100):
                out.append({'what': 'scale', 'grid': grid, 'D': 1.25, 'k': k, 'f32': True, 'evals': evs})
    return out


def build_scaled(case):
    """the grid of the case with every length multiplied by 2^k (exact), built directly from scaled coordinates"""
    import hcipy
    spec, k = case['grid'], case['k']
    s_ = 2.0 ** k
    dt = np.float32 if case['f32'] else float
    g0, pts = build(dict(spec, D=case['D']))
    kind = spec['kind']
    if kind == 'cart-regular':
        c = g0.coords
        g = hcipy.CartesianGrid(hcipy.RegularCoords(np.array(c.delta) * s_, c.dims, np.array(c.zero) * s_))
    elif kind == 'cart-points':
        g = hcipy.CartesianGrid(hcipy.UnstructuredCoords([(np.array(spec['x']) * s_).astype(dt), (np.array(spec['y']) * s_).astype(dt)]))
    elif kind == 'cart-separated':
        g = hcipy.CartesianGrid(hcipy.SeparatedCoords((np.array(spec['xs']) * s_, np.array(spec['ys']) * s_)))
    elif kind == 'polar-points':
        th = np.array([math.atan2(s2, c2) for c2, s2, d in spec['ang']])
        g = hcipy.PolarGrid(hcipy.UnstructuredCoords([(np.array(spec['r']) * s_).astype(dt), th.astype(dt)]))
    else:
        th = np.array([math.atan2(s2, c2) for c2, s2, d in spec['ang']])
        g = hcipy.PolarGrid(hcipy.SeparatedCoords((np.array(spec['R']) * s_, th)))
    return g, pts, s_


def run_scale(hz, case):
    g, pts, s_ = build_scaled(case)
    D0 = case['D']; D = D0 * s_
    npts = len(pts[1])
    tol = F32_TOL if case['f32'] else TOL
    bad, script, stats = [], [], []
    # the scaled grid must hold exactly the scaled points (powers of two: no rounding) — otherwise the case is not the one intended
    A = current_points(g)
    P = pts[1] if pts[0] == 'polar' else pts[1] + pts[2]
    Q = A[1] if pts[0] == 'polar' else A[1] + A[2]
    if len(P) != len(Q) or any(Fraction(a) != Fraction(p) * Fraction(2) ** case['k'] for a, p in zip(Q, P)):
        raise MachineryError('scaled grid of %r does not hold the exactly scaled points' % (case['grid'],))
    outside, amb = cut_info(pts, D0)
    T0 = track_start(case['grid'])
    Ts = track_op(T0, 'scale', [Fraction(2) ** case['k']])
    gens = {}
    recs = []
    for ei, ev in enumerate(case['evals']):
        outs = run_eval(hz, ev, g, D, gens, npts)
        for label, n, m, cut, z in outs:
            ref, mag = reference(n, m, D0, cut, pts, outside)
            r = compare_vec(z, ref, mag * tol / TOL, amb, cut, npts)
            stats.append('scale-eval:%s:%s' % (ev['e'], 'generator' if ev.get('gen') else 'direct'))
            if r:
                bad.append(('scale %s %s' % (ev['e'], r[0]), '%s on a %s grid (%s coordinates) in units of 2^%d (coordinates and D = %r scaled together: Z depends on r/D only): %s'
                            % (label, case['grid']['kind'], 'float32' if case['f32'] else 'float64', case['k'], D, r[1]), ei))
            recs.append((label, n, m, cut, z, amb, mag, ev['e']))
    # the entry points against each other: the same mode through two different entry points
    bymode = {}
    for label, n, m, cut, z, amb_, mag, e in recs:
        if isinstance(z, str) or z.shape != (npts,):
            continue
        k0 = (n, m, cut)
        if k0 in bymode and bymode[k0][1] != e:
            z0 = bymode[k0][0]
            skip = amb & bool(cut)
            d = np.abs(z - z0); d[skip] = 0.0
            stats.append('scale-entry-pairs')
            if (np.isnan(z) != np.isnan(z0)).any() or np.nanmax(np.append(d, 0.0)) > tol * max(1.0, mag):
                bad.append(('scale entry-points-disagree', '%s and %s give different values for the mode (%d,%d) on the same %s grid in units of 2^%d' % (bymode[k0][2], label, n, m, case['grid']['kind'], case['k']), 0))
        else:
            bymode[k0] = (z, e, label)
    # model: the exactly scaled rational points and D·2^k; and the same request at the unscaled points must give the same answer
    base = {}
    script.append((track_line(T0), None))
    seen = []
    for label, n, m, cut, z, amb_, mag, e in recs:
        if (n, m, cut) not in base:
            ln = 'C13 mode %d %d %s %d' % (n, m, rat(D0), 1 if cut else 0)
            base[(n, m, cut)] = len(seen); seen.append(None)
            script.append((ln, ('same0', base[(n, m, cut)])))
    script.append((track_line(Ts), None))
    Ds = rat(Fraction(D0) * Fraction(2) ** case['k'])
    done = set()
    for label, n, m, cut, z, amb_, mag, e in recs:
        ln = 'C13 mode %d %d %s %d' % (n, m, Ds, 1 if cut else 0)
        if (n, m, cut) not in done:
            done.add((n, m, cut))
            script.append((ln, ('same1', base[(n, m, cut)])))
        script.append((ln, ('mode', label, n, m, cut, z, amb, mag, tol)))
    return bad, script, stats


def play_scale_script(ctx, case, script, out):
    """as play_script, with the scale-invariance check of the model itself (same0 / same1 slots)"""
    store = {}
    rest = []
    for (ln, exp), ans in zip(script, out):
        if exp is not None and exp[0] == 'same0':
            store[exp[1]] = ans
        elif exp is not None and exp[0] == 'same1':
            ctx.traces_validated += 1
            if store.get(exp[1]) != ans or not ans.startswith('ok '):
                ctx.disagree('C13 scale', {'case': case, 'detail': 'the model is not scale invariant (theorem mode_cartesian_scale_invariant / mode_cut_scale_invariant)', 'line': ln[:160]})
        else:
            rest.append(((ln, exp), ans))
    for (ln, exp), ans in rest:
        if exp is None:
            if ans != 'ok':
                ctx.disagree('C13 scale', {'case': case, 'line': ln[:120], 'model': ans[:120]})
            continue
        _, label, n, m, cut, z, amb, mag, tol = exp
        if not ans.startswith('ok '):
            raise MachineryError('model answered %r to %r' % (ans[:60], ln[:80]))
        q = parse_rat_list(ans[3:])
        nf = norm_factor(n, m)
        mv = np.array([float(nf * (LD(v.numerator) / LD(v.denominator))) for v in q])
        ctx.traces_validated += 1
        r = compare_vec(z, mv, mag * tol / TOL, amb, cut, len(mv))
        if r:
            ctx.disagree('C13 scale', {'label': label, 'case': case, 'n': n, 'm': m, 'detail': r[1]})


def radial_extreme(ctx, hz):
    """zernike_radial called directly at extreme arguments: rho = j·2^-k down to 2^-520 (the powers underflow gracefully: no NaN, no
    spurious value) and up to 4, against the factorial definition in exact integers"""
    rng = ctx.rng
    for _ in range(ctx.scale(40, 400)):
        n = int(rng.integers(0, NMAX + 1)); m = n % 2 + 2 * int(rng.integers(0, n // 2 + 1))
        sgn = [1, -1][int(rng.integers(0, 2))]
        ks = [int(rng.integers(30, 521)) for _ in range(4)]
        rho = [0.0, 1.0] + [float(rng.integers(1, 8)) * 2.0 ** -k for k in ks] + [float(rng.integers(0, 1025)) / 256.0]
        use_cache = bool(rng.random() < 0.5)
        case = {'what': 'radial-extreme', 'n': n, 'm': sgn * m, 'rho': rho, 'cache': use_cache}
        bad = run_radial_extreme(hz, case)
        ctx.case(None, ('radial-extreme', n, m))
        ctx.count('radial-extreme-requests')
        for key, what in bad[:1]:
            ctx.violation(key, what, case)


def run_radial_extreme(hz, case):
    n, m, rho = case['n'], case['m'], case['rho']
    arr = np.array(rho, dtype=float)
    with warnings.catch_warnings():
        warnings.simplefilter('ignore')
        try:
            z = np.array(hz.zernike_radial(n, m, arr, {} if case['cache'] else None), dtype=float)
        except Exception as ex:      # noqa
            return [('scale zernike_radial raises', 'zernike_radial(%d,%d,%r) raises %s' % (n, m, rho, type(ex).__name__))]
    if z.shape != arr.shape:
        z = np.broadcast_to(z, arr.shape)
    bad = []
    for j, r in enumerate(rho):
        q = exact_radial(n, abs(m), r)
        ref = float(q)
        if np.isnan(z[j]) or abs(z[j] - ref) > TOL * max(1.0, abs(ref)):
            bad.append(('scale zernike_radial value', 'zernike_radial(%d,%d) at rho = %r gives %r, the definition %r' % (n, m, r, float(z[j]), ref)))
    return bad


def check_scales(ctx, hz):
    cases = _scale_directed() + [gen_scale_case(ctx.rng) for _ in range(ctx.scale(90, 1000))]
    jobs = []
    for case in cases:
        bad, script, stats = run_scale(hz, case)
        seen = set()
        for key, what, ei in bad:
            if key not in seen:
                seen.add(key)
                small = dict(case, evals=[case['evals'][ei]]) if not key.endswith('disagree') else case
                if small is not case and not any(b[0] == key for b in run_scale(hz, small)[0]):
                    small = case
                ctx.violation(key, what, small)
        for s_ in stats:
            ctx.count(s_)
        ak = abs(case['k'])
        lim = 100 if case['f32'] else 520
        ctx.count('scale-grid:%s:%s' % (case['grid']['kind'], 'float32' if case['f32'] else 'float64'))
        ctx.count('scale-exponent:%s:%s' % ('float32' if case['f32'] else 'float64', 'squares-out-of-range' if ak >= lim * 3 // 5 else ('large' if ak >= lim // 4 else 'ordinary')))
        ctx.case(None, ('scale', case['grid']['kind'], case['f32'], case['k'], tuple(e['e'] for e in case['evals'])))
        jobs.append((case, script))
    play_all(ctx, jobs, play_scale_script)
    radial_extreme(ctx, hz)


def run(ctx):
    import hcipy, sys
    hz = sys.modules['hcipy.mode_basis.zernike']
    ctx.rule = ('(A) index maps: noll_to_zernike, ansi_to_zernike, zernike_to_ansi exhaustively on the whole range and '
                'zernike_to_noll on all pairs of the low orders plus sampled high orders, each against an enumeration of the '
                'documented ordering (oracle) and against the Lean model (correspondence). (B) mode values: zernike(n,m,D,grid,'
                'cutoff,cache) for n <= 20 on regular/unstructured Cartesian, unstructured polar and separated polar grids whose '
                'points are exact (dyadic radii, Pythagorean directions, always the centre r=0 and the rim r=D/2, radii down to '
                '2^-20), in random request orders against one shared cache or none; oracle = the factorial definition in 80-bit '
                'arithmetic, cache vs no cache bit for bit, field length; correspondence = exact rational model value times '
                'sqrt(normSq); tolerance 1e-9*max(1, max over the points of sqrt(2(n+1))|R(2r/D)|). A directed corpus evaluates all 231 modes on every grid kind first. '
                '(C) make_zernike_basis (Noll/ANSI, cache on/off) on a Gauss-Legendre x uniform polar grid: Gram matrix = identity. '
                '(D) zernike_radial / zernike_azimuthal called directly on caller-owned arrays, Fields and grid coordinate views (values, inputs '
                'bit-identical afterwards, second pass identical), and every spelling of zernike / zernike_noll / zernike_ansi / make_zernike_basis '
                '(grid=None generator forms evaluated later on two different grids in any order, starting_mode, ansi, radial_cutoff, use_cache, '
                'D as int/float/0-d array/np.float64, positional vs keyword), each against the definition for the mode the documented ordering names and against the model. '
                '(E) the radial polynomial as a polynomial: zernike_radial run on the symbolic argument numpy Polynomial([0,1]) (all 121 pairs n <= 20, any request order, with/without one shared cache) against the factorial coefficients (oracle) and the coefficient lists of the model recursion (radialPoly); peval of the model list = radialEval = the code at sampled radii (0, 1, 2^-20, k/256); the Gram matrix of zernike_radial under 32-point Gauss-Legendre quadrature with weight r against delta/(2(n+1)) (oracle) and the exact integral of the model product polynomial (pint01). '
                '(F) make_zernike_basis(num, D, grid, starting_mode, ansi, radial_cutoff, use_cache) on unstructured and separated polar grids (all 231 modes directed, random windows of indices, every combination of the keyword defaults): every column against the definition of the mode the documented ordering names (oracle) and against the column of the array-level model basisA (C13 abasis), grid coordinates byte-identical afterwards. '
                '(G) the Field generators of make_zernike_basis(num, D, None, …) called in random order (some repeatedly) on two polar grids (half of the time of equal size but different points), each call against the definition on the grid it was handed (oracle) and against the model runGensA without a shared cache (C13 gens own). '
                '(H) beyond the table: zernike_radial for orders 21..40 (thorough 44) in cached request histories (|m| decreasing / increasing / random, repeated requests, two radial orders interleaved in one cache) at r = 0, 1, 2^-12 and random dyadic radii up to 1.125, against the factorial definition in exact integers, the unit-circle identity R_n^m(1) = 1 and the centre value (oracle) and against radialEval of the model (C13 radial); the first requests of each history also on the symbolic argument (coefficient list of the code = factorial coefficients in exact integers = C13 poly = C13 defpoly, theorem radial_poly_eq_def for every order) — the theorems radial_matches_definition / radial_at_one / radial_at_zero hold for every order. The complete zernike() for the same orders on unstructured / separated polar grids (centre, exact rim, radii around it, Pythagorean directions; cached histories over several m of either sign, with and without the cut-off) against exact-integer radial definition x 80-bit azimuthal factor (oracle) and against C13 mode x sqrt(C13 normsq) (model). Rim: points exactly on 2r = D (polar grids: always; regular pupil grids: Pythagorean pixels) carry exactly 0 with the cut-off (rim-not-outside). '
                'Non-trivial = a mode evaluation on a non-empty grid; distinct by (grid kind, n, m, cutoff, cache, centre present, rim present).')
    ctx.assumptions += ['np.hypot / arctan2 / cos / sin / pow are accurate to a few ulp',
                        'float sqrt in the index maps is tied only on the exhaustively compared range',
                        'Cartesian points within 1e-12 (relative, squared) of the rim are not compared (counted as boundary_skipped)']
    t = time.time()
    load_normsq(ctx)
    check_index_maps(ctx, hz)
    ctx.extra['time_index_s'] = round(time.time() - t, 1); t = time.time()
    check_values(ctx, hz)
    ctx.extra['time_values_s'] = round(time.time() - t, 1); t = time.time()
    check_basis(ctx, hz)
    ctx.extra['time_basis_s'] = round(time.time() - t, 1); t = time.time()
    check_direct(ctx, hz)
    ctx.extra['time_direct_s'] = round(time.time() - t, 1); t = time.time()
    check_spellings(ctx, hz)
    ctx.extra['time_spellings_s'] = round(time.time() - t, 1); t = time.time()
    check_polynomials(ctx, hz)
    ctx.extra['time_polynomials_s'] = round(time.time() - t, 1); t = time.time()
    check_abasis(ctx, hz)
    ctx.extra['time_abasis_s'] = round(time.time() - t, 1); t = time.time()
    check_gens(ctx, hz)
    ctx.extra['time_gens_s'] = round(time.time() - t, 1); t = time.time()
    check_high_orders(ctx, hz)
    check_high_modes(ctx, hz)
    ctx.extra['time_high_orders_s'] = round(time.time() - t, 1); t = time.time()
    check_grid_history(ctx, hz)
    ctx.extra['time_grid_history_s'] = round(time.time() - t, 1); t = time.time()
    check_scales(ctx, hz)
    ctx.extra['time_scales_s'] = round(time.time() - t, 1)
    by = {}
    for d in ctx.disagreements:
        by[d['stream']] = by.get(d['stream'], 0) + 1
    ctx.extra['disagreements_by_stream'] = by


def replay(ctx, case):
    import hcipy, sys
    hz = sys.modules['hcipy.mode_basis.zernike']
    what = case.get('what')
    ok = True
    if what == 'noll' and case['i'] > 10 ** 7:
        got = call_index(hz.noll_to_zernike, case['i'])
        ok = got == doc_noll(case['i'])
        print('  noll_to_zernike(%d) = %r, documented %r' % (case['i'], got, doc_noll(case['i'])))
    elif what == 'ansi' and case['i'] > 10 ** 7:
        got = call_index(hz.ansi_to_zernike, case['i'])
        ok = got == doc_ansi(case['i'])
        print('  ansi_to_zernike(%d) = %r, documented %r' % (case['i'], got, doc_ansi(case['i'])))
    elif what == 'noll':
        en, em = expected_noll(int(math.isqrt(2 * case['i'])) + 2)
        got = call_index(hz.noll_to_zernike, case['i'])
        ok = got == (en[case['i'] - 1], em[case['i'] - 1])
        print('  noll_to_zernike(%d) = %r' % (case['i'], got))
    elif what == 'ansi':
        an, am = expected_ansi(int(math.isqrt(2 * case['i'])) + 2)
        got = call_index(hz.ansi_to_zernike, case['i'])
        ok = got == (an[case['i']], am[case['i']])
        print('  ansi_to_zernike(%d) = %r' % (case['i'], got))
    elif what == 'toansi':
        got = call_index(hz.zernike_to_ansi, case['n'], case['m'])
        ok = got != 'raises' and call_index(hz.ansi_to_zernike, got) == (case['n'], case['m'])
        print('  zernike_to_ansi(%d,%d) = %r' % (case['n'], case['m'], got))
    elif what == 'tonoll':
        got = call_index(hz.zernike_to_noll, case['n'], case['m'])
        ok = isinstance(got, int) and call_index(hz.noll_to_zernike, got) == (case['n'], case['m'])
        print('  zernike_to_noll(%d,%d) = %r' % (case['n'], case['m'], got))
    elif what == 'tonoll-invalid':
        try:
            got = hz.zernike_to_noll(case['n'], case['m']); ok = False
            print('  zernike_to_noll(%d,%d) = %r' % (case['n'], case['m'], got))
        except ValueError as e:
            print('  zernike_to_noll(%d,%d) raises ValueError: %s' % (case['n'], case['m'], e))
        except Exception as e:      # noqa
            ok = False
            print('  zernike_to_noll(%d,%d) raises %s: %s' % (case['n'], case['m'], type(e).__name__, e))
    elif what == 'noll-injective':
        seen = set(hz.noll_to_zernike(i) for i in range(1, case['N'] + 1))
        ok = len(seen) == case['N']
    elif what in ('ghist', 'scale'):
        bad = (run_ghist if what == 'ghist' else run_scale)(hz, case)[0]
        for key, what_, _ in bad[:5]:
            print('  fails:', key, '-', what_)
        ok = not bad
    elif what == 'radial-extreme':
        bad = run_radial_extreme(hz, case)
        for key, what_ in bad[:5]:
            print('  fails:', key, '-', what_)
        ok = not bad
    elif what == 'highmode':
        bad = run_highmode(hz, case)[0]
        for key, what_, _ in bad[:5]:
            print('  fails:', key, '-', what_)
        ok = not bad
    elif what == 'high':
        bad = run_high(hz, case)[0]
        for key, what_, _ in bad[:5]:
            print('  fails:', key, '-', what_)
        ok = not bad
    elif what == 'gens':
        bad = run_gens(hz, case)[0]
        for key, what_, _ in bad[:5]:
            print('  fails:', key, '-', what_)
        ok = not bad
    elif what == 'abasis':
        bad = run_abasis(hz, case)[0]
        for key, what_, _ in bad[:5]:
            print('  fails:', key, '-', what_)
        ok = not bad
    elif what in ('poly', 'ortho'):
        bad = (run_poly if what == 'poly' else run_ortho)(hz, case)[0]
        for key, what_, _ in bad[:5]:
            print('  fails:', key, '-', what_)
        ok = not bad
    elif what == 'direct':
        bad = run_direct(hz, case)[0]
        for key, what_, _ in bad[:5]:
            print('  fails:', key, '-', what_)
        ok = not bad
    elif what == 'spelling':
        bad = run_spelling(hz, case)[0]
        for key, what_, _ in bad[:5]:
            print('  fails:', key, '-', what_)
        ok = not bad
    elif what == 'basis':
        class Rec:      # minimal stand-in collecting violations
            pass
        sub = type(ctx)(ctx.id, ctx.tier, ctx.seed)
        check_basis(sub, hz)
        for v in sub.violations:
            if v['case'] == case:
                print('  fails:', v['key'], '-', v['what']); ok = False
    else:
        grid, pts, real, fresh, outside, amb, refs = observe(hz, case)
        bad = judge(case, real, fresh, refs, amb, len(pts[1]), rim_mask(pts, case['D']))
        for key, what_, _ in bad[:5]:
            print('  fails:', key, '-', what_)
        ok = not bad
    return ok
