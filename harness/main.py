"""Entry point: python -m harness.main Cxx [--tier quick|thorough] [--replay file]"""
import argparse
import importlib
import json
import os
import sys
import traceback

sys.path.insert(0, os.path.dirname(os.path.dirname(os.path.abspath(__file__))))
from harness import common  # noqa: E402


class _WallClockExceeded(BaseException):
    pass


def _limit_resources(tier):
    """Bound what one check may consume while it drives the implementation: a changed implementation can loop for ever
    or accumulate without bound (seed C20-9 did: 20 GB in 12 minutes).  Address space: VERIF_MEM_LIMIT_GB (default 12;
    applies to this process and the model driver, set after the Lean build, whose processes map far more).  Wall clock:
    VERIF_WALL_LIMIT_S (default 1800 quick / 5400 thorough).  Exceeding the memory limit surfaces as MemoryError inside
    the property module (recorded as a broken correspondence, the verdict logic still runs); exceeding the wall clock is
    exit 2 (a timeout is never a VIOLATION)."""
    import resource
    import signal
    gb = float(os.environ.get('VERIF_MEM_LIMIT_GB', '12') or 0)
    if gb > 0:
        lim = int(gb * (1 << 30))
        soft, hard = resource.getrlimit(resource.RLIMIT_AS)
        if hard == resource.RLIM_INFINITY or lim <= hard:
            resource.setrlimit(resource.RLIMIT_AS, (lim, hard))
    secs = int(os.environ.get('VERIF_WALL_LIMIT_S', '1800' if tier == 'quick' else '5400') or 0)
    if secs > 0:
        def on_alarm(signum, frame):
            raise _WallClockExceeded()
        signal.signal(signal.SIGALRM, on_alarm)
        signal.alarm(secs)


def main():
    ap = argparse.ArgumentParser()
    ap.add_argument('prop')
    ap.add_argument('--tier', default=os.environ.get('VERIF_TIER', 'quick'), choices=['quick', 'thorough'])
    ap.add_argument('--replay', default=None)
    ap.add_argument('--no-build', action='store_true', help='skip lake build/audit (development only)')
    args = ap.parse_args()
    seed = int(os.environ.get('VERIF_SEED', '0') or 0)
    prop = args.prop.upper()
    os.environ.setdefault('HCIPY_VERIF', '1')
    try:
        mod = importlib.import_module('harness.props.' + prop.lower())
        ctx = common.Ctx(prop, args.tier, seed)
        if args.replay:
            body = json.load(open(args.replay))
            if body.get('kind') != 'input':
                print('replay file names an unchecked obligation/correspondence, re-running the check instead')
            else:
                ok = mod.replay(ctx, body['case'])
                print('REPLAY property=%s %s: %s' % (prop, 'still-fails' if not ok else 'passes-now', body.get('what')))
                return 1 if not ok else 0
        import hcipy
        want = os.path.realpath(os.environ.get('HCIPY_VERIF_REPO', '/repo'))
        if not os.path.realpath(hcipy.__file__).startswith(want + os.sep):
            raise common.MachineryError('hcipy imported from %s, expected under %s' % (hcipy.__file__, want))
        import glob
        for old in glob.glob(os.path.join(common.REPLAY_DIR, prop + '-*.json')):
            os.remove(old)          # replay files belong to the latest run of this property
        if not args.no_build:
            if hasattr(mod, 'regenerate'):
                mod.regenerate(ctx)      # tie T2/T3: rewrite lean/HcipyVerif/Gen/*.lean from the running code
            ctx.build_and_audit()
        _limit_resources(args.tier)
        try:
            mod.run(ctx)
        except common.MachineryError:
            raise
        except Exception as exc:
            if isinstance(exc, MemoryError):
                # give the verdict logic room to run: lift the limit that was hit, drop what the property module held
                import gc
                import resource
                resource.setrlimit(resource.RLIMIT_AS, (resource.getrlimit(resource.RLIMIT_AS)[1],) * 2)
                del exc
                gc.collect()
                ctx.disagree('resource-limit', {'what': 'driving the implementation exceeded VERIF_MEM_LIMIT_GB'})
            # The harness could not interpret what the implementation did (it raised while driving or observing
            # the real code).  On the unchanged tree this never happens; on a changed tree it means the
            # correspondence between model and code no longer checks.  It is reported as such - with whatever
            # concrete violations the oracle had already found - instead of hiding behind exit 2.
            tb = traceback.format_exc()
            sys.stderr.write(tb)
            ctx.disagree('harness-exception', {'traceback': tb[-3000:]})
        return ctx.finish()
    except common.MachineryError as e:
        print('MACHINERY-ERROR %s: %s' % (prop, e))
        return 2
    except _WallClockExceeded:
        print('MACHINERY-ERROR %s: wall-clock limit exceeded (VERIF_WALL_LIMIT_S)' % prop)
        return 2
    except Exception:
        traceback.print_exc()
        print('MACHINERY-ERROR %s: unexpected exception in the harness' % prop)
        return 2


if __name__ == '__main__':
    sys.exit(main())
