"""Registry of small instances of every shipped hcipy optical element class.

Used by C06 (and meant to be reused by C05, C07, C09 ...).  The API:

    entries = registry.elements(rng)            # list of Entry
    for name, factory, input_grid, kinds in entries: ...      # an Entry unpacks as this 4-tuple
    e.factory()                                 # a FRESH element (same parameters every call)
    registry.make_wavefront(rng, grid, kind, wavelength)      # random dyadic complex wavefront
    registry.uncovered(entries)                 # OpticalElement subclasses with no entry

All parameters are drawn from `rng` once, inside `elements`, as dyadic rationals; `factory()` is
then deterministic, so that two calls give two independent but identical elements (one per
input grid — an agnostic element is never reused on a second grid here, see defect D3).

Entry fields beyond the 4-tuple:
    cls              the hcipy class
    kinds            wavefront kinds accepted by forward: subset of ('scalar','vector','tensor')
    output_grid      grid of the wavefronts accepted by backward (None: no backward)
    backward_kinds   kinds accepted by backward
    conj_forward     forward is conjugate-linear (fibre injection as the code writes it)
    conj_backward    backward is conjugate-linear
    multi            forward returns a tuple/list of wavefronts
    wavelengths      wavelengths (dyadic) at which the element is meant to be exercised
    family           name of the IR/effect-program family in lean/HcipyVerif/Model/Elements.lean
    mult             optional: (element, wavelength, direction) -> per-pixel multiplier (numpy array,
                     broadcastable against the raveled field), for families whose IR term is
                     `mulField`; None otherwise
    passive          |transmission| <= 1 by construction (for C07)
    modes            optional: (element, wavelength) -> 2-D array (N x k) whose columns are the element's own
                     eigen-/basis modes on the *input* grid as the element exposes them (fibre modes, mirror
                     influence functions, coronagraph mode basis, lenslet cells, corrected modes); used to build
                     inputs that excite one mode each (see `element_modes`)
    notes            free text
"""
import contextlib
import io
import warnings

import numpy as np

KINDS = ('scalar', 'vector', 'tensor')
S, V, T = 'scalar', 'vector', 'tensor'
ALL = (S, V, T)


class Entry(object):
    def __init__(self, name, cls, factory, input_grid, kinds, output_grid='same', backward_kinds='same',
                 conj_forward=False, conj_backward=False, multi=False, wavelengths=(1.0, 0.75), family='?',
                 mult=None, passive=False, notes='', modes=None):
        self.name = name
        self.cls = cls
        self._factory = factory
        self.input_grid = input_grid
        self.kinds = tuple(kinds)
        self.output_grid = input_grid if isinstance(output_grid, str) and output_grid == 'same' else output_grid
        self.backward_kinds = self.kinds if isinstance(backward_kinds, str) and backward_kinds == 'same' else tuple(backward_kinds)
        if self.output_grid is None:
            self.backward_kinds = ()
        self.conj_forward = conj_forward
        self.conj_backward = conj_backward
        self.multi = multi
        self.wavelengths = tuple(wavelengths)
        self.family = family
        self.mult = mult
        self.modes = modes
        self.passive = passive
        self.notes = notes

    def factory(self):
        """A fresh element; anything the constructor prints is swallowed."""
        with contextlib.redirect_stdout(io.StringIO()), warnings.catch_warnings():
            warnings.simplefilter('ignore')
            return self._factory()

    def __iter__(self):
        return iter((self.name, self.factory, self.input_grid, self.kinds))

    def __repr__(self):
        return 'Entry(%s)' % self.name


# ------------------------------------------------------------------------------------------------
# random dyadic data

def dyadic_array(rng, shape, lo=-2.0, hi=2.0, bits=6):
    n = rng.integers(int(lo * (1 << bits)), int(hi * (1 << bits)) + 1, size=shape)
    return n.astype(float) / float(1 << bits)


def dyadic_complex(rng, shape, lo=-2.0, hi=2.0, bits=6):
    return dyadic_array(rng, shape, lo, hi, bits) + 1j * dyadic_array(rng, shape, lo, hi, bits)


def dyadic_scalar(rng, lo, hi, bits=6):
    return float(dyadic_array(rng, (), lo, hi, bits))


def field_shape(grid, kind):
    return {S: (grid.size,), V: (2, grid.size), T: (2, 2, grid.size)}[kind]


def make_field(rng, grid, kind, sparse=False):
    """A random dyadic complex field of the given kind on `grid` (complex128, fresh memory)."""
    import hcipy
    a = dyadic_complex(rng, field_shape(grid, kind))
    if sparse:
        a = a * (rng.random(a.shape) < 0.5)
    return hcipy.Field(np.ascontiguousarray(a, dtype='complex128'), grid)


STOKES = [(1, 0, 0, 0), (1, 0.5, 0.25, -0.25), (2, 0, -1, 0.5), (1, 1, 0, 0), (1.5, 0, 0, -1)]


def make_wavefront(rng, grid, kind, wavelength=1.0, field=None, stokes=None):
    """Wavefront of the given kind.  Tensor wavefronts carry an input Stokes vector (dyadic)."""
    import hcipy
    if field is None:
        field = make_field(rng, grid, kind)
    if kind == T:
        if stokes is None:
            stokes = STOKES[int(rng.integers(len(STOKES)))]
        return hcipy.Wavefront(field, wavelength, input_stokes_vector=np.array(stokes, dtype=float))
    return hcipy.Wavefront(field, wavelength)


# ------------------------------------------------------------------------------------------------
# introspection

def all_element_classes():
    import hcipy

    def subs(c, seen):
        for s in c.__subclasses__():
            if s not in seen:
                seen.add(s)
                subs(s, seen)
        return seen
    res = subs(hcipy.OpticalElement, set())
    return sorted((c for c in res if c.__module__.startswith('hcipy.')), key=lambda c: (c.__module__, c.__name__))


# abstract bases / pure containers that cannot be exercised on their own
ABSTRACT = {'AgnosticOpticalElement', 'Propagator', 'AtmosphericLayer', 'WavefrontSensorOptics'}


def uncovered(entries):
    have = set(e.cls.__name__ for e in entries)
    return [c.__module__ + '.' + c.__name__ for c in all_element_classes()
            if c.__name__ not in have and c.__name__ not in ABSTRACT]


# ------------------------------------------------------------------------------------------------
# the registry

def elements(rng, only=None):
    """Small instances (6-12 px grids) of every shipped optical element class."""
    import hcipy as hp

    out = []

    def add(name, cls, factory, grid, kinds, **kw):
        if only is not None and not any(o in name for o in only):
            return
        out.append(Entry(name, cls, factory, grid, kinds, **kw))

    n = int(rng.integers(3, 6)) * 2                       # 6, 8, 10
    pupil = hp.make_pupil_grid(n, 1.0)
    npx = [int(rng.integers(6, 11)), int(rng.integers(6, 11))]
    rect = hp.make_uniform_grid(npx, [npx[0] / 8.0, npx[1] / 8.0])          # non-square, delta = 1/8
    odd = hp.make_pupil_grid(7, 1.75)                                        # odd, delta = 1/4
    focal = hp.make_focal_grid(2, 3, spatial_resolution=0.5)                 # 12 x 12
    fsmall = hp.make_pupil_grid(8, 4.0)

    def n_glass(k):
        return lambda wl: 1.5 + k / 16.0 * (1.0 - wl)

    # ---------------- apodizers -------------------------------------------------------------
    amp = dyadic_array(rng, (rect.size,), 0.0, 1.0)
    ph = dyadic_array(rng, (rect.size,), -3.0, 3.0)
    capod = hp.Field(amp * np.exp(1j * ph), rect)
    add('Apodizer[complex-field]', hp.Apodizer, lambda: hp.Apodizer(capod.copy()), rect, ALL, family='apodizer',
        mult=lambda el, wl, d: np.asarray(capod) if d == 'forward' else np.asarray(capod).conj(), passive=True)
    ramp = hp.Field(dyadic_array(rng, (odd.size,), 0.0, 1.0), odd)
    add('Apodizer[real-field,odd]', hp.Apodizer, lambda: hp.Apodizer(ramp.copy()), odd, ALL, family='apodizer',
        mult=lambda el, wl, d: np.asarray(ramp), passive=True)
    add('Apodizer[function-of-grid]', hp.Apodizer, lambda: hp.Apodizer(hp.make_circular_aperture(0.75)), pupil, ALL,
        family='apodizer', mult=lambda el, wl, d: np.asarray(hp.make_circular_aperture(0.75)(pupil)), passive=True)
    add('Apodizer[function-of-grid-and-wavelength]', hp.Apodizer,
        lambda: hp.Apodizer(lambda input_grid, wavelength: hp.Field(np.full(input_grid.size, 0.5 * wavelength), input_grid)), pupil, ALL,
        family='apodizer', mult=lambda el, wl, d: np.full(pupil.size, 0.5 * wl), passive=True)
    phase = hp.Field(dyadic_array(rng, (rect.size,), -3.0, 3.0), rect)
    add('PhaseApodizer', hp.PhaseApodizer, lambda: hp.PhaseApodizer(phase.copy()), rect, ALL, family='apodizer',
        mult=lambda el, wl, d: np.exp((1j if d == 'forward' else -1j) * np.asarray(phase)), passive=True)
    sag = hp.Field(dyadic_array(rng, (rect.size,), -1.0, 1.0), rect)
    kg = int(rng.integers(0, 5))
    add('SurfaceApodizer[n-function]', hp.SurfaceApodizer, lambda: hp.SurfaceApodizer(sag.copy(), n_glass(kg)), rect, ALL,
        family='apodizer', passive=True,
        mult=lambda el, wl, d: np.exp((1j if d == 'forward' else -1j) * (n_glass(kg)(wl) - 1) * np.asarray(sag) * 2 * np.pi / wl))
    add('SurfaceApodizer[n-const]', hp.SurfaceApodizer, lambda: hp.SurfaceApodizer(sag.copy(), 1.5), rect, ALL,
        family='apodizer', passive=True,
        mult=lambda el, wl, d: np.exp((1j if d == 'forward' else -1j) * 0.5 * np.asarray(sag) * 2 * np.pi / wl))
    camp = hp.Field(dyadic_array(rng, (rect.size,), 0.0, 1.0), rect)
    add('ComplexSurfaceApodizer', hp.ComplexSurfaceApodizer, lambda: hp.ComplexSurfaceApodizer(camp.copy(), sag.copy(), n_glass(kg)),
        rect, ALL, family='apodizer', passive=True,
        mult=lambda el, wl, d: np.asarray(camp) * np.exp((1j if d == 'forward' else -1j) * (n_glass(kg)(wl) - 1) * np.asarray(sag) * 2 * np.pi / wl))
    amps = [hp.Field(dyadic_array(rng, (rect.size,), 0.125, 0.5), rect) for _ in range(2)]
    sags = [hp.Field(dyadic_array(rng, (rect.size,), -0.125, 0.125), rect) for _ in range(2)]

    def mplex_mult(el, wl, d):
        m = sum(np.asarray(a) * np.exp(1j * (n_glass(kg)(wl) - 1) * np.asarray(s) * 2 * np.pi / wl) for a, s in zip(amps, sags))
        return m if d == 'forward' else 1.0 / m
    add('MultiplexedComplexSurfaceApodizer', hp.MultiplexedComplexSurfaceApodizer,
        lambda: hp.MultiplexedComplexSurfaceApodizer([a.copy() for a in amps], [s.copy() for s in sags], n_glass(kg)), rect, ALL,
        family='apodizer', mult=mplex_mult, notes='backward divides by the forward mask (not passive)')
    add('ThinLens', hp.ThinLens, lambda: hp.ThinLens(4.0, n_glass(kg), 1.0), pupil, ALL, family='apodizer', passive=True)
    ang = dyadic_scalar(rng, -0.25, 0.25)
    ori = dyadic_scalar(rng, -1.0, 1.0)
    add('TiltElement', hp.TiltElement, lambda: hp.TiltElement(ang, ori, 2.0), rect, ALL, family='apodizer', passive=True)
    add('ThinPrism', hp.ThinPrism, lambda: hp.ThinPrism(ang, n_glass(kg), ori), rect, ALL, family='apodizer', passive=True)
    add('Prism', hp.Prism, lambda: hp.Prism(0.25, 0.5, n_glass(kg), ori), rect, ALL, family='apodizer', passive=True)
    add('PhaseGrating', hp.PhaseGrating, lambda: hp.PhaseGrating(0.375, 0.75, None, ori), rect, ALL, family='apodizer', passive=True)
    add('PhaseGrating[profile]', hp.PhaseGrating,
        lambda: hp.PhaseGrating(0.25, 0.5, lambda grid: np.sign(np.sin(2 * np.pi * grid.x)), 0.0), pupil, ALL, family='apodizer', passive=True)
    add('SurfaceAberration', hp.SurfaceAberration,
        lambda: _seeded(7, lambda: hp.SurfaceAberration(pupil, 0.25, 1.0)), pupil, ALL, family='apodizer', passive=True,
        notes='random surface drawn from an unseeded default_rng(): the factory pins the seed')
    add('SurfaceAberrationAtDistance', hp.SurfaceAberrationAtDistance,
        lambda: _seeded(7, lambda: hp.SurfaceAberrationAtDistance(_with_input_grid(hp.SurfaceAberration(pupil, 0.25, 1.0), pupil), 0.5)),
        pupil, ALL, family='sandwich', notes='Fresnel forward, surface, Fresnel backward')
    add('SimpleVibration', hp.SimpleVibration, lambda: _vibration(hp, phase.copy()), rect, ALL, family='apodizer', passive=True)
    add('PeriodicOpticalElement', hp.PeriodicOpticalElement,
        lambda: hp.PeriodicOpticalElement(pupil, 0.5, lambda g: hp.Apodizer(hp.Field(np.exp(-(g.x**2 + g.y**2) * 4), g)), 0.0),
        pupil, ALL, family='apodizer', passive=True)
    add('PeriodicOpticalElement[even,rotated]', hp.PeriodicOpticalElement,
        lambda: hp.PeriodicOpticalElement(pupil, 0.25, lambda g: hp.PhaseApodizer(hp.Field(8 * g.x * g.y, g)), 0.5, True),
        pupil, ALL, family='apodizer', passive=True)

    # ---------------- mirrors ---------------------------------------------------------------
    nact = 3
    acts = dyadic_array(rng, (nact * nact,), -0.0625, 0.0625, 8)

    def dm():
        infl = hp.make_gaussian_influence_functions(pupil, nact, 1.0 / nact)
        d = hp.DeformableMirror(infl)
        d.actuators = acts.copy()
        return d
    add('DeformableMirror[gaussian,sparse]', hp.DeformableMirror, dm, pupil, ALL, modes=lambda el, wl: _dense(el.influence_functions.transformation_matrix), family='mirror', passive=True,
        mult=lambda el, wl, d: np.exp((2j if d == 'forward' else -2j) * 2 * np.pi / wl * np.asarray(el.surface)))
    dense_modes = dyadic_array(rng, (rect.size, 4), -1.0, 1.0)
    acts4 = dyadic_array(rng, (4,), -0.0625, 0.0625, 8)

    def dm_dense():
        d = hp.DeformableMirror(hp.ModeBasis(dense_modes.copy(), rect))
        d.actuators = acts4.copy()
        return d
    add('DeformableMirror[dense]', hp.DeformableMirror, dm_dense, rect, ALL, modes=lambda el, wl: _dense(el.influence_functions.transformation_matrix), family='mirror', passive=True,
        mult=lambda el, wl, d: np.exp((2j if d == 'forward' else -2j) * 2 * np.pi / wl * dense_modes.dot(acts4)))
    tt = dyadic_array(rng, (2,), -0.125, 0.125, 8)

    def ttm():
        m = hp.TipTiltMirror(rect)
        m.actuators = tt.copy()
        return m
    add('TipTiltMirror', hp.TipTiltMirror, ttm, rect, ALL, modes=lambda el, wl: _dense(el.influence_functions.transformation_matrix), family='mirror', passive=True,
        mult=lambda el, wl, d: np.exp((2j if d == 'forward' else -2j) * 2 * np.pi / wl * (tt[0] * rect.x + tt[1] * rect.y)))
    seg_acts = dyadic_array(rng, (6,), -0.0625, 0.0625, 8)

    def segdm():
        half = hp.Field((pupil.x < 0).astype(float), pupil)
        segs = hp.ModeBasis([half, 1 - half], pupil)
        m = hp.SegmentedDeformableMirror(segs)
        m.actuators = seg_acts.copy()
        return m
    add('SegmentedDeformableMirror', hp.SegmentedDeformableMirror, segdm, pupil, ALL, modes=lambda el, wl: _dense(el.influence_functions.transformation_matrix), family='mirror', passive=True,
        mult=lambda el, wl, d: np.exp((2j if d == 'forward' else -2j) * 2 * np.pi / wl * np.asarray(el.surface)))

    # ---------------- magnifier, empty, systems ---------------------------------------------
    mag = [2.0, -0.5, 1.5][int(rng.integers(3))]
    add('Magnifier[scalar]', hp.Magnifier, lambda: hp.Magnifier(mag), rect, ALL, output_grid=rect.scaled(mag), family='magnifier',
        mult=lambda el, wl, d: np.full(rect.size, 1 / np.sqrt(mag * mag) if d == 'forward' else np.sqrt(mag * mag)), passive=True)
    mag2 = np.array([2.0, 0.5])
    add('Magnifier[anamorphic]', hp.Magnifier, lambda: hp.Magnifier(mag2.copy()), rect, ALL, output_grid=rect.scaled(mag2), family='magnifier',
        mult=lambda el, wl, d: np.full(rect.size, 1.0), passive=True)
    add('EmptyOpticalElement', hp.EmptyOpticalElement, lambda: hp.EmptyOpticalElement(), rect, ALL, family='identity',
        mult=lambda el, wl, d: np.ones(rect.size), passive=True, notes='returns the input object itself')
    add('OpticalSystem[apodizer,dm,apodizer]', hp.OpticalSystem,
        lambda: hp.OpticalSystem([hp.Apodizer(capod.copy()), dm_dense(), hp.PhaseApodizer(phase.copy())]), rect, ALL, family='system', passive=True)
    add('OpticalSystem[empty]', hp.OpticalSystem, lambda: hp.OpticalSystem([]), rect, ALL, family='identity', passive=True,
        mult=lambda el, wl, d: np.ones(rect.size))

    # ---------------- propagators -----------------------------------------------------------
    add('FraunhoferPropagator', hp.FraunhoferPropagator, lambda: hp.FraunhoferPropagator(pupil, focal, 1.5), pupil, ALL,
        output_grid=focal, family='fraunhofer')
    add('FraunhoferPropagator[focal-length-function,odd]', hp.FraunhoferPropagator,
        lambda: hp.FraunhoferPropagator(odd, fsmall, lambda wavelength: 1 + wavelength), odd, ALL, output_grid=fsmall, family='fraunhofer')
    dist = [0.125, 2.0][int(rng.integers(2))]
    add('FresnelPropagator', hp.FresnelPropagator, lambda: hp.FresnelPropagator(pupil, dist), pupil, ALL, family='filter')
    add('FresnelPropagator[far,rect]', hp.FresnelPropagator, lambda: hp.FresnelPropagator(rect, 4.0, 1, 2, n_glass(kg)), rect, ALL, family='filter')
    add('AngularSpectrumPropagator', hp.AngularSpectrumPropagator, lambda: hp.AngularSpectrumPropagator(pupil, dist), pupil, ALL, family='filter')
    add('AngularSpectrumPropagator[far,rect]', hp.AngularSpectrumPropagator, lambda: hp.AngularSpectrumPropagator(rect, 4.0, 1), rect, ALL, family='filter')

    # ---------------- polarisation optics ---------------------------------------------------
    jm = dyadic_complex(rng, (2, 2), -1.0, 1.0)
    add('JonesMatrixOpticalElement[constant]', hp.JonesMatrixOpticalElement, lambda: hp.JonesMatrixOpticalElement(jm.copy()), rect, ALL, family='jones')
    jmf = hp.Field(dyadic_complex(rng, (2, 2, rect.size), -1.0, 1.0), rect)
    add('JonesMatrixOpticalElement[field]', hp.JonesMatrixOpticalElement, lambda: hp.JonesMatrixOpticalElement(jmf.copy()), rect, ALL, family='jones')
    ret = dyadic_scalar(rng, 0.0, 3.0)
    fa = dyadic_scalar(rng, -1.5, 1.5)
    circ = dyadic_scalar(rng, -1.5, 1.5)
    add('PhaseRetarder', hp.PhaseRetarder, lambda: hp.PhaseRetarder(ret, fa, circ), rect, ALL, family='jones', passive=True)
    faf = hp.Field(dyadic_array(rng, (rect.size,), -1.5, 1.5), rect)
    add('LinearRetarder[field-axis]', hp.LinearRetarder, lambda: hp.LinearRetarder(ret, faf.copy()), rect, ALL, family='jones', passive=True)
    add('LinearRetarder[wavelength-function]', hp.LinearRetarder, lambda: hp.LinearRetarder(lambda wavelength: 2 * wavelength, fa), rect, ALL, family='jones', passive=True)
    add('CircularRetarder', hp.CircularRetarder, lambda: hp.CircularRetarder(ret), rect, ALL, family='jones', passive=True)
    add('QuarterWavePlate', hp.QuarterWavePlate, lambda: hp.QuarterWavePlate(fa), rect, ALL, family='jones', passive=True)
    add('HalfWavePlate', hp.HalfWavePlate, lambda: hp.HalfWavePlate(fa), rect, ALL, family='jones', passive=True)
    add('GeometricPhaseElement', hp.GeometricPhaseElement, lambda: hp.GeometricPhaseElement(phase.copy(), 0.25), rect, ALL, family='jones', passive=True)
    add('VectorApodizingPhasePlate', hp.VectorApodizingPhasePlate, lambda: hp.VectorApodizingPhasePlate(phase.copy(), None, 0.125), rect, ALL, family='jones', passive=True)
    add('LinearPolarizer', hp.LinearPolarizer, lambda: hp.LinearPolarizer(fa), rect, ALL, family='jones', passive=True)
    add('LinearPolarizingBeamSplitter', hp.LinearPolarizingBeamSplitter, lambda: hp.LinearPolarizingBeamSplitter(fa), rect, ALL,
        output_grid=None, multi=True, family='jones-split', passive=True)
    add('CircularPolarizingBeamSplitter', hp.CircularPolarizingBeamSplitter, lambda: hp.CircularPolarizingBeamSplitter(), rect, ALL,
        output_grid=None, multi=True, family='jones-split', passive=True)

    # ---------------- fibres ----------------------------------------------------------------
    one = hp.CartesianGrid(hp.RegularCoords([1, 1], [1, 1], np.zeros(2)))
    one.weights = 1
    add('SingleModeFiberInjection', hp.SingleModeFiberInjection,
        lambda: hp.SingleModeFiberInjection(fsmall, hp.make_gaussian_fiber_mode(2.0)), fsmall, (S,), output_grid=one,
        conj_forward=True, modes=lambda el, wl: np.asarray(el.mode)[:, None], family='fibre-injection', passive=True,
        notes='forward conjugates the field (conjugate-linear); vector/tensor inputs are not supported by the code')
    pos = np.array([0.5, -0.25])
    one_p = hp.CartesianGrid(hp.RegularCoords([1, 1], [1, 1], pos))
    one_p.weights = 1
    add('SingleModeFiberInjection[offset]', hp.SingleModeFiberInjection,
        lambda: hp.SingleModeFiberInjection(fsmall, hp.make_gaussian_fiber_mode(1.5), pos.copy()), fsmall, (S,), output_grid=one_p,
        conj_forward=True, modes=lambda el, wl: np.asarray(el.mode)[:, None], family='fibre-injection', passive=True)
    fibre_grid = hp.make_pupil_grid(2, 2.0)
    add('SingleModeFiberArray', hp.SingleModeFiberArray,
        lambda: hp.SingleModeFiberArray(fsmall, fibre_grid, hp.make_gaussian_fiber_mode(1.5)), fsmall, (S,), output_grid=fibre_grid,
        conj_forward=True, modes=lambda el, wl: np.asarray(el.projection_matrix), family='fibre-injection', passive=True)
    add('StepIndexFiber', hp.StepIndexFiber, lambda: hp.StepIndexFiber(1.0, 0.5, 2.0), fsmall, (S, V), modes=lambda el, wl: np.asarray(el.get_instance_data(fsmall, None, wl).fiber_modes.transformation_matrix), family='fibre-modes', passive=True,
        wavelengths=(1.0, 0.75))

    def lantern():
        modes = hp.make_lp_modes(fsmall, 1.5 * np.pi, 1.0)
        return hp.PhotonicLantern(modes)
    add('PhotonicLantern', hp.PhotonicLantern, lantern, fsmall, (S,), output_grid='lantern', conj_forward=True, modes=lambda el, wl: np.asarray(el.projection_matrix), family='fibre-injection', passive=True)

    # ---------------- micro-lens arrays, Shack-Hartmann -------------------------------------
    mla_grid = hp.make_pupil_grid(2, 1.0)
    add('MicroLensArray[closest]', hp.MicroLensArray, lambda: hp.MicroLensArray(pupil, mla_grid, 2.0), pupil, ALL, modes=lambda el, wl: _cells(el.mla_index), family='apodizer', passive=True)
    add('MicroLensArray[shape]', hp.MicroLensArray,
        lambda: hp.MicroLensArray(pupil, mla_grid, 2.0, hp.make_rectangular_aperture(0.5)), pupil, ALL, modes=lambda el, wl: _cells(el.mla_index), family='apodizer', passive=True)
    add('SphericalMicroLensArray', hp.SphericalMicroLensArray,
        lambda: hp.SphericalMicroLensArray(pupil, mla_grid, 2.0, hp.make_rectangular_aperture(0.5), 1.5), pupil, ALL, modes=lambda el, wl: _cells(el.mla_index), family='apodizer', passive=True)
    add('EvenAsphereMicroLensArray', hp.EvenAsphereMicroLensArray,
        lambda: hp.EvenAsphereMicroLensArray(pupil, mla_grid, 2.0, hp.make_rectangular_aperture(0.5), 1.5, -0.5, [0.125]), pupil, ALL,
        modes=lambda el, wl: _cells(el.mla_index), family='apodizer', passive=True)
    add('ShackHartmannWavefrontSensorOptics', hp.ShackHartmannWavefrontSensorOptics,
        lambda: hp.ShackHartmannWavefrontSensorOptics(pupil, hp.MicroLensArray(pupil, mla_grid, 2.0)), pupil, ALL, modes=lambda el, wl: _cells(el.mla_index), family='system', passive=True)
    add('SquareShackHartmannWavefrontSensorOptics', hp.SquareShackHartmannWavefrontSensorOptics,
        lambda: hp.SquareShackHartmannWavefrontSensorOptics(pupil, 4.0, 2, 1.0), pupil, ALL, modes=lambda el, wl: _cells(el.mla_index), family='system', passive=True)

    # ---------------- coronagraphs ----------------------------------------------------------
    fpm = hp.Field(dyadic_array(rng, (focal.size,), 0.0, 1.0) * np.exp(1j * dyadic_array(rng, (focal.size,), -3.0, 3.0)), focal)
    stop = hp.Field((dyadic_array(rng, (pupil.size,), 0.0, 1.0) > 0.25).astype(float), pupil)
    add('LyotCoronagraph[mask,stop]', hp.LyotCoronagraph, lambda: hp.LyotCoronagraph(pupil, fpm.copy(), stop.copy()), pupil, ALL, family='lyot')
    add('LyotCoronagraph[no-stop]', hp.LyotCoronagraph, lambda: hp.LyotCoronagraph(pupil, fpm.copy(), None, 2.0), pupil, ALL, family='lyot')
    add('OccultedLyotCoronagraph', hp.OccultedLyotCoronagraph, lambda: hp.OccultedLyotCoronagraph(pupil, fpm.copy()), pupil, ALL, family='sandwich')
    kdir = ['+x', '-x', '+y', '-y'][int(rng.integers(4))]
    add('KnifeEdgeLyotCoronagraph[%s]' % kdir, hp.KnifeEdgeLyotCoronagraph,
        lambda: hp.KnifeEdgeLyotCoronagraph(rect, 2, kdir, hp.Field(np.asarray(camp), rect), None), rect, (S,), family='knife',
        notes='scalar wavefronts only (2-D internal array); the Stokes vector is not forwarded')
    add('KnifeEdgeLyotCoronagraph[stop]', hp.KnifeEdgeLyotCoronagraph,
        lambda: hp.KnifeEdgeLyotCoronagraph(pupil, 3, '+x', None, stop.copy()), pupil, (S,), family='knife')
    ap = hp.make_circular_aperture(1.0)(pupil)
    add('PerfectCoronagraph[order2]', hp.PerfectCoronagraph, lambda: hp.PerfectCoronagraph(ap.copy(), 2), pupil, ALL, modes=lambda el, wl: np.asarray(el.transformation), family='projection', passive=True)
    add('PerfectCoronagraph[order4]', hp.PerfectCoronagraph, lambda: hp.PerfectCoronagraph(ap.copy(), 4), pupil, ALL, modes=lambda el, wl: np.asarray(el.transformation), family='projection', passive=True)
    ms_q, ms_sf, ms_w = 8, 2, 4
    cmask = lambda grid: hp.Field(np.exp(1j * 2 * grid.as_('polar').theta), grid)     # noqa: E731
    add('MultiScaleCoronagraph', hp.MultiScaleCoronagraph,
        lambda: hp.MultiScaleCoronagraph(pupil, cmask, None, ms_q, ms_sf, ms_w), pupil, ALL, family='multiscale')
    add('MultiScaleCoronagraph[stop]', hp.MultiScaleCoronagraph,
        lambda: hp.MultiScaleCoronagraph(pupil, cmask, stop.copy(), ms_q, ms_sf, ms_w), pupil, ALL, family='multiscale')
    add('VortexCoronagraph', hp.VortexCoronagraph, lambda: hp.VortexCoronagraph(pupil, 2, None, ms_q, ms_sf, ms_w), pupil, ALL, family='multiscale')
    add('FQPMCoronagraph', hp.FQPMCoronagraph, lambda: hp.FQPMCoronagraph(pupil, stop.copy(), ms_q, ms_sf, ms_w), pupil, ALL, family='multiscale')
    add('VectorVortexCoronagraph', hp.VectorVortexCoronagraph,
        lambda: hp.VectorVortexCoronagraph(2, None, np.pi, ms_q, ms_sf, ms_w), pupil, ALL, family='multiscale-jones')
    add('VectorVortexCoronagraph[stop]', hp.VectorVortexCoronagraph,
        lambda: hp.VectorVortexCoronagraph(4, stop.copy(), 2.5, ms_q, ms_sf, ms_w), pupil, ALL, family='multiscale-jones')
    add('FiberNuller', hp.FiberNuller,
        lambda: hp.FiberNuller(pupil, hp.SingleModeFiberInjection(fsmall, hp.make_gaussian_fiber_mode(2.0)), hp.Apodizer(stop.copy())),
        pupil, (S,), output_grid=one, conj_forward=True, family='fibre-nuller')
    add('VortexFiberNuller', hp.VortexFiberNuller,
        lambda: hp.VortexFiberNuller(pupil, hp.SingleModeFiberInjection(fsmall, hp.make_gaussian_fiber_mode(2.0)), 1),
        pupil, (S,), output_grid=one, conj_forward=True, family='fibre-nuller')
    add('PhotonicLanternNuller', hp.PhotonicLanternNuller,
        lambda: hp.PhotonicLanternNuller(pupil, fsmall, 1.31, 1), pupil, (S,), output_grid='lantern', conj_forward=True, family='fibre-nuller')

    # ---------------- wavefront-sensor optics -----------------------------------------------
    wfs_out = hp.make_pupil_grid(2 * n, 2.0)
    add('PyramidWavefrontSensorOptics', hp.PyramidWavefrontSensorOptics,
        lambda: hp.PyramidWavefrontSensorOptics(pupil, wfs_out, 1.0, 1.0, 1.0, 2, 2), pupil, ALL, output_grid=wfs_out, family='system')
    add('ModulatedPyramidWavefrontSensorOptics', hp.ModulatedPyramidWavefrontSensorOptics,
        lambda: hp.ModulatedPyramidWavefrontSensorOptics(hp.PyramidWavefrontSensorOptics(pupil, wfs_out, 1.0, 1.0, 1.0, 2, 2), 1.0, 3),
        pupil, ALL, output_grid=None, multi=True, family='modulated')
    add('ModulatedPyramidWavefrontSensorOptics[fast]', hp.ModulatedPyramidWavefrontSensorOptics,
        lambda: hp.ModulatedPyramidWavefrontSensorOptics(hp.PyramidWavefrontSensorOptics(pupil, wfs_out, 1.0, 1.0, 1.0, 2, 2), 1.0, 3, True),
        pupil, ALL, output_grid=None, multi=True, family='modulated')
    add('ZernikeWavefrontSensorOptics', hp.ZernikeWavefrontSensorOptics,
        lambda: hp.ZernikeWavefrontSensorOptics(pupil, np.pi / 2, 1.06, 8, 1.0, 1.0), pupil, ALL, family='lyot')
    add('VectorZernikeWavefrontSensorOptics', hp.VectorZernikeWavefrontSensorOptics,
        lambda: hp.VectorZernikeWavefrontSensorOptics(pupil, 2.5, np.pi / 2, 1.06, 8, 1.0, 1.0), pupil, ALL, family='lyot-jones')
    add('OpticalDifferentiationWavefrontSensorOptics', hp.OpticalDifferentiationWavefrontSensorOptics,
        lambda: hp.OpticalDifferentiationWavefrontSensorOptics(hp.make_odwfs_amplitude_filter(0.5), pupil, wfs_out, 1.0, 1.0, 1.0, None, 2),
        pupil, ALL, output_grid=None, family='system',
        notes='backward applies the two propagators in forward order and raises for every input (observed defect, outside C06): forward only')

    # ---------------- atmosphere (held at a fixed time) -------------------------------------
    cn2 = hp.Cn_squared_from_fried_parameter(0.25, 1.0)

    def finite(seed=3):
        l = hp.FiniteAtmosphericLayer(pupil, cn2, 8.0, np.array([1.0, 0.5]), 0.0, 2, seed)
        l.evolve_until(0.25)
        return l

    def infinite(seed=5):
        l = hp.InfiniteAtmosphericLayer(pupil, cn2, 8.0, np.array([1.0, 0.5]), 4.0, 2, True, seed)
        l.evolve_until(0.25)
        return l
    add('FiniteAtmosphericLayer', hp.FiniteAtmosphericLayer, finite, pupil, ALL, family='layer', passive=True,
        mult=lambda el, wl, d: np.exp((1j if d == 'forward' else -1j) * np.asarray(el.phase_for(wl))))
    add('InfiniteAtmosphericLayer', hp.InfiniteAtmosphericLayer, infinite, pupil, ALL, family='layer', passive=True,
        mult=lambda el, wl, d: np.exp((1j if d == 'forward' else -1j) * np.asarray(el.phase_for(wl))))

    def modal():
        l = finite()
        modes = hp.make_zernike_basis(3, 1.0, pupil)
        m = hp.ModalAdaptiveOpticsLayer(l, modes, 1)
        m.evolve_until(0.25)
        m.evolve_until(0.5)
        return m
    add('ModalAdaptiveOpticsLayer', hp.ModalAdaptiveOpticsLayer, modal, pupil, ALL, modes=lambda el, wl: np.asarray(el.transformation_matrix), family='layer', passive=True,
        mult=lambda el, wl, d: np.exp((1j if d == 'forward' else -1j) * np.asarray(el.phase_for(wl))))
    add('MultiLayerAtmosphere', hp.MultiLayerAtmosphere, lambda: hp.MultiLayerAtmosphere([finite(3), infinite(5)], False), pupil, ALL,
        family='system', passive=True)
    add('MultiLayerAtmosphere[scintillation]', hp.MultiLayerAtmosphere, lambda: hp.MultiLayerAtmosphere([finite(3), infinite(5)], True), pupil, ALL,
        family='system', passive=True)

    # ---------------- the same element classes on grids whose weights are per-point ARRAYS ------------
    # (regular grids carry one scalar weight; a separated non-uniform grid computes an array of weights lazily, an
    # unstructured grid is given an explicit array).  Every element that accepts such grids gets an entry on each.
    sx = np.array([-0.5, -0.3125, -0.1875, -0.0625, 0.0625, 0.25, 0.5])
    sy = np.array([-0.375, -0.25, 0.0, 0.125, 0.1875, 0.4375])
    sep = hp.CartesianGrid(hp.SeparatedCoords((sx.copy(), sy.copy())))
    nun = int(rng.integers(20, 33))
    uns = hp.CartesianGrid(hp.UnstructuredCoords((dyadic_array(rng, (nun,), -0.5, 0.5, 8), dyadic_array(rng, (nun,), -0.5, 0.5, 8))),
                           weights=dyadic_array(rng, (nun,), 0.0078125, 0.0625, 10))
    _EXPLICIT_WEIGHTS[id(uns)] = True
    _KEEP_ALIVE.append(uns)
    fsx = np.array([-1.5, -0.75, -0.25, 0.0, 0.5, 1.0, 1.75])
    sepfocal = hp.CartesianGrid(hp.SeparatedCoords((fsx.copy(), fsx.copy()[1:])))
    for label, g in (('sep', sep), ('uns', uns)):
        gx, gy = np.asarray(g.x, dtype=float), np.asarray(g.y, dtype=float)
        gphase = hp.Field(dyadic_array(rng, (g.size,), -3.0, 3.0), g)
        gamp = hp.Field(dyadic_array(rng, (g.size,), 0.0, 1.0), g)
        gsag = hp.Field(dyadic_array(rng, (g.size,), -1.0, 1.0), g)
        gmodes = dyadic_array(rng, (g.size, 3), -1.0, 1.0)
        gacts = dyadic_array(rng, (3,), -0.0625, 0.0625, 8)
        tag = '@' + label
        add('Apodizer[field]' + tag, hp.Apodizer, (lambda gamp=gamp, gphase=gphase: hp.Apodizer(gamp * np.exp(1j * gphase))), g, ALL,
            family='apodizer', passive=True)
        add('Apodizer[function-of-grid]' + tag, hp.Apodizer, lambda: hp.Apodizer(hp.make_circular_aperture(0.75)), g, ALL, family='apodizer', passive=True)
        add('PhaseApodizer' + tag, hp.PhaseApodizer, (lambda gphase=gphase: hp.PhaseApodizer(gphase.copy())), g, ALL, family='apodizer', passive=True)
        add('SurfaceApodizer' + tag, hp.SurfaceApodizer, (lambda gsag=gsag: hp.SurfaceApodizer(gsag.copy(), n_glass(kg))), g, ALL, family='apodizer', passive=True)
        add('TiltElement' + tag, hp.TiltElement, lambda: hp.TiltElement(ang, ori, 2.0), g, ALL, family='apodizer', passive=True)
        add('ThinLens' + tag, hp.ThinLens, lambda: hp.ThinLens(4.0, n_glass(kg), 1.0), g, ALL, family='apodizer', passive=True)

        def gdm(g=g, gmodes=gmodes, gacts=gacts):
            d = hp.DeformableMirror(hp.ModeBasis(gmodes.copy(), g))
            d.actuators = gacts.copy()
            return d
        add('DeformableMirror[dense]' + tag, hp.DeformableMirror, gdm, g, ALL, family='mirror', passive=True,
            modes=lambda el, wl: _dense(el.influence_functions.transformation_matrix))

        def gttm(g=g):
            m = hp.TipTiltMirror(g)
            m.actuators = tt.copy()
            return m
        add('TipTiltMirror' + tag, hp.TipTiltMirror, gttm, g, ALL, family='mirror', passive=True)
        add('Magnifier[scalar]' + tag, hp.Magnifier, lambda: hp.Magnifier(mag), g, ALL, output_grid=g.scaled(mag), family='magnifier', passive=True)
        add('Magnifier[anamorphic]' + tag, hp.Magnifier, lambda: hp.Magnifier(mag2.copy()), g, ALL, output_grid=g.scaled(mag2), family='magnifier', passive=True)
        add('EmptyOpticalElement' + tag, hp.EmptyOpticalElement, lambda: hp.EmptyOpticalElement(), g, ALL, family='identity', passive=True)
        add('OpticalSystem[apodizer,magnifier,phase]' + tag, hp.OpticalSystem,
            (lambda gamp=gamp: hp.OpticalSystem([hp.Apodizer(gamp.copy()), hp.Magnifier(2.0), hp.PhaseApodizer(lambda grid: hp.Field(grid.x * 4, grid))])),
            g, ALL, output_grid=g.scaled(2.0), family='system', passive=True)
        add('JonesMatrixOpticalElement[constant]' + tag, hp.JonesMatrixOpticalElement, lambda: hp.JonesMatrixOpticalElement(jm.copy()), g, ALL, family='jones')
        add('LinearPolarizer' + tag, hp.LinearPolarizer, lambda: hp.LinearPolarizer(fa), g, ALL, family='jones', passive=True)
        add('QuarterWavePlate' + tag, hp.QuarterWavePlate, lambda: hp.QuarterWavePlate(fa), g, ALL, family='jones', passive=True)
        add('LinearRetarder[field-axis]' + tag, hp.LinearRetarder, (lambda gphase=gphase: hp.LinearRetarder(ret, gphase.copy())), g, ALL, family='jones', passive=True)
        gap = hp.Field((gx * gx + gy * gy <= 0.25).astype(float), g)
        add('PerfectCoronagraph[order2]' + tag, hp.PerfectCoronagraph, (lambda gap=gap: hp.PerfectCoronagraph(gap.copy(), 2)), g, ALL, family='projection',
            passive=True, modes=lambda el, wl: np.asarray(el.transformation))
        add('SingleModeFiberInjection' + tag, hp.SingleModeFiberInjection,
            (lambda g=g: hp.SingleModeFiberInjection(g, hp.make_gaussian_fiber_mode(0.5))), g, (S,), output_grid=one,
            conj_forward=True, family='fibre-injection', passive=True, modes=lambda el, wl: np.asarray(el.mode)[:, None])
        add('SimpleVibration' + tag, hp.SimpleVibration, (lambda gphase=gphase: _vibration(hp, gphase.copy())), g, ALL, family='apodizer', passive=True)
    # a propagator from a non-uniform pupil grid, and one whose FOCAL grid is non-uniform (its instance rescales that grid)
    add('FraunhoferPropagator[sep-pupil]', hp.FraunhoferPropagator, lambda: hp.FraunhoferPropagator(sep, fsmall, 1.5), sep, ALL,
        output_grid=fsmall, family='fraunhofer')
    add('FraunhoferPropagator[sep-focal]', hp.FraunhoferPropagator, lambda: hp.FraunhoferPropagator(pupil, sepfocal, 1.5), pupil, ALL,
        output_grid=sepfocal, family='fraunhofer')
    add('LyotCoronagraph[sep-focal-mask]', hp.LyotCoronagraph,
        lambda: hp.LyotCoronagraph(pupil, hp.Field((np.hypot(sepfocal.x, sepfocal.y) > 0.6).astype(float), sepfocal), stop.copy()), pupil, ALL, family='lyot')

    # resolve placeholder output grids
    for e in out:
        if isinstance(e.output_grid, str) and e.output_grid == 'lantern':
            el = e.factory()
            e.output_grid = el.fiber.output_grid if hasattr(el, 'fiber') else el.output_grid
    return out


_EXPLICIT_WEIGHTS = {}
_KEEP_ALIVE = []


def fresh_grid(grid):
    """An equal but distinct grid object whose automatic weights have NOT been computed yet (explicitly given
    weights — unstructured grids, the one-point fibre grids — are copied)."""
    import copy
    g = copy.deepcopy(grid)
    explicit = _EXPLICIT_WEIGHTS.get(id(grid), False) or grid.is_unstructured or grid.size <= 1
    if not explicit:
        g._weights = None
    return g


def _seeded(seed, f):
    """Run a constructor that draws from `np.random.default_rng()` without offering a seed
    (SurfaceAberration -> make_power_law_error -> make_random()) with a fixed seed."""
    orig = np.random.default_rng

    def patched(s=None):
        return orig(seed if s is None else s)
    np.random.default_rng = patched
    try:
        return f()
    finally:
        np.random.default_rng = orig


def _dense(m):
    return np.asarray(m.toarray() if hasattr(m, 'toarray') else m)


def _cells(index):
    """Indicator functions of the lenslet cells (columns)."""
    index = np.asarray(index)
    ids = [i for i in np.unique(index) if i >= 0]
    return np.array([(index == i).astype(float) for i in ids]).T if ids else np.ones((index.size, 1))


def generic_modes(grid):
    """Low-order polynomial modes on any grid: 1, x, y, xy, x^2-y^2, x^2+y^2 (columns), each scaled to max 1."""
    n = grid.size
    if n == 1 or grid.ndim != 2:
        return np.ones((n, 1))
    x = np.asarray(grid.x, dtype=float)
    y = np.asarray(grid.y, dtype=float)
    cols = [np.ones(n), x, y, x * y, x * x - y * y, x * x + y * y]
    out = []
    for c in cols:
        m = np.max(np.abs(c))
        if m > 0:
            out.append(c / m)
    return np.array(out).T


def element_modes(entry, el, grid, wl):
    """Columns = modes on `grid`: the element's own modes where it exposes them on this grid, then generic ones."""
    cols = []
    if entry.modes is not None:
        try:
            M = np.asarray(entry.modes(el, wl))
        except Exception as ex:         # noqa
            raise RuntimeError('registry: modes of %s cannot be read: %s: %s' % (entry.name, type(ex).__name__, ex))
        if M.ndim == 2 and M.shape[0] == grid.size:
            cols += [M[:, k] for k in range(min(M.shape[1], 8)) if np.max(np.abs(M[:, k])) > 0]
    own = len(cols)
    G = generic_modes(grid)
    cols += [G[:, k] for k in range(G.shape[1])]
    return np.array(cols, dtype=complex).T, own


def _with_input_grid(el, grid):
    el.input_grid = grid
    return el


def _vibration(hp, mode):
    v = hp.SimpleVibration.__new__(hp.SimpleVibration)
    # SimpleVibration.__init__ reads self.frequency before it is set (AttributeError on this tree):
    # initialise the private attribute first, then run the constructor.
    v._frequency = 0.0
    v.phase_0 = 0.0
    hp.SimpleVibration.__init__(v, mode, 0.25, 0.5, 0.75)
    v.t = 0.375
    return v


# ------------------------------------------------------------------------------------------------
# constructor options: every documented option of every element class at a non-default value

class _FieldOperatorElement(object):
    """A field-level helper object of the library (`FourierFilter`, the thing behind the Fresnel / angular-spectrum
    propagators and the multi-scale coronagraphs) used directly through its public `forward` / `backward`, presented with
    the interface of an optical element so that the same clauses run on it."""
    def __init__(self, op):
        self.op = op

    def _apply(self, f, wavefront):
        import hcipy as hp
        return hp.Wavefront(f(wavefront.electric_field), wavefront.wavelength, wavefront.input_stokes_vector)

    def forward(self, wavefront):
        return self._apply(self.op.forward, wavefront)

    def backward(self, wavefront):
        return self._apply(self.op.backward, wavefront)


def option_elements(rng):
    """Entries that exercise the constructor options `elements` leaves at their defaults (and the rare values of the ones
    it sets): one entry per (class, option) with that option at a non-default value, everything else as in `elements`.
    `constructor_option_coverage` measures what the two lists together reach.  Parameters are dyadic, drawn from `rng`."""
    import hcipy as hp

    out = []

    def add(name, cls, factory, grid, kinds, **kw):
        out.append(Entry(name, cls, factory, grid, kinds, **kw))

    n = int(rng.integers(3, 5)) * 2                       # 6, 8
    pupil = hp.make_pupil_grid(n, 1.0)
    npx = [int(rng.integers(6, 10)), int(rng.integers(6, 10))]
    rect = hp.make_uniform_grid(npx, [npx[0] / 8.0, npx[1] / 8.0])
    focal = hp.make_focal_grid(2, 3, spatial_resolution=0.5)
    fsmall = hp.make_pupil_grid(8, 4.0)
    dist = dyadic_scalar(rng, 0.25, 2.0, 3)
    kg = int(rng.integers(1, 8))

    def n_glass(k):
        return lambda wl: 1.5 + k / 16.0 * (1.0 - wl)

    phase = dyadic_array(rng, (rect.size,), -3.0, 3.0)
    stop = hp.Field((dyadic_array(rng, (pupil.size,), 0.0, 1.0) > 0.25).astype(float), pupil)
    fpm = hp.Field(dyadic_array(rng, (focal.size,), 0.0, 1.0) * np.exp(1j * dyadic_array(rng, (focal.size,), -3.0, 3.0)), focal)

    # ---------------- propagators and the Fourier filter behind them --------------------------------------------
    add('FresnelPropagator[zero_padding=1]', hp.FresnelPropagator, lambda: hp.FresnelPropagator(pupil, dist, zero_padding=1), pupil, ALL, family='filter')
    add('FresnelPropagator[zero_padding=1,num_oversampling=1,rect]', hp.FresnelPropagator,
        lambda: hp.FresnelPropagator(rect, 2 * dist, 1, 1, n_glass(kg)), rect, ALL, family='filter')
    add('FresnelPropagator[zero_padding=3]', hp.FresnelPropagator, lambda: hp.FresnelPropagator(pupil, dist, 2, 3), pupil, ALL, family='filter')
    add('AngularSpectrumPropagator[refractive_index,num_oversampling=3]', hp.AngularSpectrumPropagator,
        lambda: hp.AngularSpectrumPropagator(pupil, dist, 3, n_glass(kg)), pupil, ALL, family='filter')

    def tf_function(fourier_grid):
        return hp.Field(np.exp(-0.125j * (fourier_grid.x**2 + fourier_grid.y**2)), fourier_grid)
    add('FourierFilter[q=1,rect]', _FieldOperatorElement, lambda: _FieldOperatorElement(hp.FourierFilter(rect, tf_function)), rect, ALL,
        family='filter', notes='hcipy.FourierFilter used directly (default q = 1: no zero padding)')
    add('FourierFilter[q=1,function]', _FieldOperatorElement, lambda: _FieldOperatorElement(hp.FourierFilter(pupil, tf_function, 1)), pupil, ALL,
        family='filter')
    add('FourierFilter[q=2,function]', _FieldOperatorElement, lambda: _FieldOperatorElement(hp.FourierFilter(pupil, tf_function, 2)), pupil, ALL,
        family='filter')
    add('OpticalSystem[fresnel(zero_padding=1),phase,fresnel(zero_padding=1)]', hp.OpticalSystem,
        lambda: hp.OpticalSystem([hp.FresnelPropagator(rect, dist, 2, 1), hp.PhaseApodizer(phase.copy()), hp.FresnelPropagator(rect, dist, 1, 1)]),
        rect, ALL, family='system')

    def sad_unpadded():
        s = hp.SurfaceAberrationAtDistance(_with_input_grid(hp.SurfaceAberration(pupil, 0.25, 1.0), pupil), 0.5)
        s.fresnel = hp.FresnelPropagator(pupil, 0.5, zero_padding=1)
        return s
    add('SurfaceAberrationAtDistance[fresnel(zero_padding=1)]', hp.SurfaceAberrationAtDistance, lambda: _seeded(7, sad_unpadded), pupil, ALL, family='sandwich')
    add('SurfaceAberration[exponent,refractive_index,aperture,remove_modes]', hp.SurfaceAberration,
        lambda: _seeded(7, lambda: hp.SurfaceAberration(pupil, 0.25, 1.0, -3.0, 1.5, hp.make_circular_aperture(1.0)(pupil),
                                                        hp.make_zernike_basis(3, 1.0, pupil))), pupil, ALL, family='apodizer', passive=True)

    # ---------------- coronagraphs ------------------------------------------------------------------------------
    add('OccultedLyotCoronagraph[focal_length=2]', hp.OccultedLyotCoronagraph, lambda: hp.OccultedLyotCoronagraph(pupil, fpm.copy(), 2.0), pupil, ALL, family='sandwich')
    add('LyotCoronagraph[focal_plane_mask_grid]', hp.LyotCoronagraph,
        lambda: hp.LyotCoronagraph(pupil, np.asarray(fpm).copy(), stop.copy(), 1.5, focal), pupil, ALL, family='lyot')
    add('OccultedLyotCoronagraph[focal_plane_mask_grid]', hp.OccultedLyotCoronagraph,
        lambda: hp.OccultedLyotCoronagraph(pupil, np.asarray(fpm).copy(), 1.0, focal), pupil, ALL, family='sandwich')
    add('VortexCoronagraph[lyot_stop,charge=4]', hp.VortexCoronagraph, lambda: hp.VortexCoronagraph(pupil, 4, stop.copy(), 4, 2, 4), pupil, ALL, family='multiscale')
    add('FQPMCoronagraph[no-stop]', hp.FQPMCoronagraph, lambda: hp.FQPMCoronagraph(pupil, None, 4, 2, 4), pupil, ALL, family='multiscale')
    ap = hp.make_circular_aperture(1.0)(pupil)
    # ---------------- wavefront-sensor optics -------------------------------------------------------------------
    wfs_out = hp.make_pupil_grid(2 * n, 2.0)
    add('PyramidWavefrontSensorOptics[wavelength_0,refractive_index,defaults]', hp.PyramidWavefrontSensorOptics,
        lambda: hp.PyramidWavefrontSensorOptics(pupil, wfs_out, None, None, 0.75, None, None, n_glass(kg)), pupil, ALL, output_grid=wfs_out, family='system')
    add('ZernikeWavefrontSensorOptics[phase_step,dot,pupil_diameter,reference_wavelength]', hp.ZernikeWavefrontSensorOptics,
        lambda: hp.ZernikeWavefrontSensorOptics(pupil, 1.0, 1.5, 6, 0.75, 0.75), pupil, ALL, family='lyot')
    add('VectorZernikeWavefrontSensorOptics[phase_step,dot,pupil_diameter,reference_wavelength]', hp.VectorZernikeWavefrontSensorOptics,
        lambda: hp.VectorZernikeWavefrontSensorOptics(pupil, 2.0, 1.0, 1.5, 6, 0.75, 0.75), pupil, ALL, family='lyot-jones')
    add('OpticalDifferentiationWavefrontSensorOptics[wavelength_0,refractive_index]', hp.OpticalDifferentiationWavefrontSensorOptics,
        lambda: hp.OpticalDifferentiationWavefrontSensorOptics(hp.make_odwfs_amplitude_filter(0.5), pupil, wfs_out, 1.0, 1.0, 0.75, None, 2, n_glass(kg)),
        pupil, ALL, output_grid=None, family='system')
    add('ModulatedPyramidWavefrontSensorOptics[num_steps=default]', hp.ModulatedPyramidWavefrontSensorOptics,
        lambda: hp.ModulatedPyramidWavefrontSensorOptics(hp.PyramidWavefrontSensorOptics(pupil, wfs_out, 1.0, 1.0, 1.0, 2, 2), 0.5),
        pupil, ALL, output_grid=None, multi=True, family='modulated')

    # ---------------- polarisation, fibres, lenslets, atmosphere --------------------------------------------------
    fa = dyadic_scalar(rng, -1.5, 1.5, 3)
    add('LinearPolarizingBeamSplitter[wavelength]', hp.LinearPolarizingBeamSplitter, lambda: hp.LinearPolarizingBeamSplitter(fa, 0.75), rect, ALL,
        output_grid=None, multi=True, family='jones-split', passive=True)
    add('CircularPolarizingBeamSplitter[wavelength]', hp.CircularPolarizingBeamSplitter, lambda: hp.CircularPolarizingBeamSplitter(0.75), rect, ALL,
        output_grid=None, multi=True, family='jones-split', passive=True)
    add('StepIndexFiber[position]', hp.StepIndexFiber, lambda: hp.StepIndexFiber(1.0, 0.5, 2.0, np.array([0.5, -0.25])), fsmall, (S, V), family='fibre-modes', passive=True)
    mla_grid = hp.make_pupil_grid(2, 1.0)
    add('SphericalMicroLensArray[refractive_index]', hp.SphericalMicroLensArray,
        lambda: hp.SphericalMicroLensArray(pupil, mla_grid, 2.0, hp.make_rectangular_aperture(0.5), n_glass(kg)), pupil, ALL, family='apodizer', passive=True)
    add('EvenAsphereMicroLensArray[refractive_index]', hp.EvenAsphereMicroLensArray,
        lambda: hp.EvenAsphereMicroLensArray(pupil, mla_grid, 2.0, hp.make_rectangular_aperture(0.5), 1.75), pupil, ALL, family='apodizer', passive=True)
    one = hp.CartesianGrid(hp.RegularCoords([1, 1], [1, 1], np.zeros(2)))
    one.weights = 1
    add('VortexFiberNuller[vortex_charge=2]', hp.VortexFiberNuller,
        lambda: hp.VortexFiberNuller(pupil, hp.SingleModeFiberInjection(fsmall, hp.make_gaussian_fiber_mode(2.0)), 2),
        pupil, (S,), output_grid=one, conj_forward=True, family='fibre-nuller')
    add('PhotonicLanternNuller[mode_field_diameter]', hp.PhotonicLanternNuller,
        lambda: hp.PhotonicLanternNuller(pupil, fsmall, 1.5, 1), pupil, (S,), output_grid='lantern', conj_forward=True, family='fibre-nuller')
    cn2 = hp.Cn_squared_from_fried_parameter(0.25, 1.0)

    def infinite(stencil, interp, seed=5):
        l = hp.InfiniteAtmosphericLayer(pupil, cn2, 8.0, np.array([1.0, 0.5]), 4.0, stencil, interp, seed)
        l.evolve_until(0.25)
        return l
    add('InfiniteAtmosphericLayer[stencil_length=3,no-interpolation]', hp.InfiniteAtmosphericLayer, lambda: infinite(3, False), pupil, ALL, family='layer', passive=True)

    def atmosphere_unpadded():
        layers = [infinite(2, True, 3), infinite(2, True, 5)]
        layers[0].height = 2.0
        a = hp.MultiLayerAtmosphere(layers, True)
        a.elements = [hp.FresnelPropagator(pupil, e.distance, zero_padding=1) if isinstance(e, hp.FresnelPropagator) else e for e in a.elements]
        return a
    add('MultiLayerAtmosphere[scintillation,fresnel(zero_padding=1)]', hp.MultiLayerAtmosphere, atmosphere_unpadded, pupil, ALL, family='system', passive=True)
    for e in out:
        if isinstance(e.output_grid, str) and e.output_grid == 'lantern':
            el = e.factory()
            e.output_grid = el.fiber.output_grid if hasattr(el, 'fiber') else el.output_grid
    return out


def constructor_option_coverage(entries):
    """Which optional constructor parameters of the element classes receive a non-default value somewhere in `entries`
    (observed by wrapping every class's `__init__` while each factory runs once).
    Returns (covered, missing): dicts class name -> sorted list of parameter names."""
    import inspect
    seen = {}
    saved = {}
    classes = [c for c in all_element_classes() if '__init__' in c.__dict__]

    def wrap(cls):
        orig = cls.__dict__['__init__']
        sig = inspect.signature(orig)

        def init(self, *a, **k):
            try:
                b = sig.bind(self, *a, **k)
            except TypeError:
                b = None
            if b is not None:
                for name, v in b.arguments.items():
                    p = sig.parameters[name]
                    if p.default is inspect.Parameter.empty or p.kind in (p.VAR_POSITIONAL, p.VAR_KEYWORD):
                        continue
                    try:
                        eq = (v is p.default) or bool(np.all(v == p.default))
                    except Exception:     # noqa
                        eq = False
                    if not eq:
                        seen.setdefault(cls.__name__, set()).add(name)
            return orig(self, *a, **k)
        saved[cls] = orig
        cls.__init__ = init

    for c in classes:
        wrap(c)
    try:
        for e in entries:
            try:
                e.factory()
            except Exception:     # noqa
                pass
    finally:
        for c, o in saved.items():
            c.__init__ = o
    covered, missing = {}, {}
    for c in classes:
        if c.__name__ in ABSTRACT:
            continue
        sig = inspect.signature(c.__dict__['__init__'])
        opts = [nm for nm, p in sig.parameters.items() if p.default is not inspect.Parameter.empty]
        cov = sorted(nm for nm in opts if nm in seen.get(c.__name__, ()))
        mis = sorted(nm for nm in opts if nm not in seen.get(c.__name__, ()))
        if cov:
            covered[c.__name__] = cov
        if mis:
            missing[c.__name__] = mis
    return covered, missing
